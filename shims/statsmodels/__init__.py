"""Minimal stand-in for statsmodels (harness code, see DESIGN.md section 2).

Only `statsmodels.stats.multitest.multipletests` is provided, which is all xeofs imports.
It lets `BaseModel.check_needed_module("statsmodels")` succeed so that xeofs.cross.* can be
constructed.  The checks call pattern methods with correction=None, which never reaches it.
"""
__version__ = "0.0-verif-shim"
