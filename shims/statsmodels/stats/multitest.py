import numpy as np


def multipletests(pvals, alpha=0.05, method="fdr_bh", is_sorted=False, returnsorted=False):
    p = np.asarray(pvals, dtype=float)
    n = p.size
    if method in ("bonferroni", "b"):
        corr = np.minimum(p * n, 1.0)
    elif method in ("fdr_bh", "fdr_i", "fdr_p", "fdri", "fdrp"):
        order = np.argsort(p)
        ranked = p[order] * n / np.arange(1, n + 1)
        ranked = np.minimum.accumulate(ranked[::-1])[::-1]
        corr = np.empty(n)
        corr[order] = np.minimum(ranked, 1.0)
    else:
        raise NotImplementedError(f"shim does not implement method {method!r}")
    reject = corr <= alpha
    return reject, corr, 1 - (1 - alpha) ** (1.0 / n), alpha / n
