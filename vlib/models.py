"""Uniform adapters over xeofs model classes (construction from a JSON spec, list-valued accessors)."""

from __future__ import annotations

import numpy as np
from hypothesis import strategies as st

SINGLE = ["EOF", "ComplexEOF", "SparsePCA", "POP"]
SINGLE_ROT = {"EOFRotator": "EOF", "ComplexEOFRotator": "ComplexEOF"}
CROSS = ["CPCCA", "MCA", "CCA", "RDA", "ComplexCPCCA", "ComplexMCA", "ComplexCCA", "ComplexRDA"]
CROSS_ROT = {"CPCCARotator": "CPCCA", "MCARotator": "MCA", "ComplexCPCCARotator": "ComplexCPCCA",
             "ComplexMCARotator": "ComplexMCA"}
HILBERT_SINGLE = ["HilbertEOF"]
HILBERT_CROSS = ["HilbertCPCCA", "HilbertMCA", "HilbertCCA", "HilbertRDA"]
HILBERT_ROT = {"HilbertEOFRotator": "HilbertEOF", "HilbertCPCCARotator": "HilbertCPCCA", "HilbertMCARotator": "HilbertMCA"}
FIXED_ALPHA = {"MCA": (1.0, 1.0), "CCA": (0.0, 0.0), "RDA": (0.0, 1.0)}


def family(cls):
    if cls in SINGLE or cls in SINGLE_ROT or cls in HILBERT_SINGLE or cls in ("HilbertEOFRotator", "ExtendedEOF", "OPA"):
        return "single"
    if cls == "multi.CCA":
        return "multi"
    return "cross"


def base_of(cls):
    for table in (SINGLE_ROT, CROSS_ROT, HILBERT_ROT):
        if cls in table:
            return table[cls]
    return cls


def is_rotator(cls):
    return cls in SINGLE_ROT or cls in CROSS_ROT or cls in HILBERT_ROT


def is_complex_cls(cls):
    return base_of(cls).startswith("Complex")


def is_hilbert_cls(cls):
    return base_of(cls).startswith("Hilbert")


def cross_alpha(spec):
    b = base_of(spec["cls"])
    for k, v in FIXED_ALPHA.items():
        if b.endswith(k) and not b.endswith("CPCCA"):
            return v
    a = spec.get("alpha", 1.0)
    return tuple(a) if isinstance(a, (list, tuple)) else (a, a)


def _get(mod, name):
    return getattr(mod, name)


def construct_base(spec, names=("sample", "feature")):
    import xeofs as xe

    cls = base_of(spec["cls"])
    fam = family(cls)
    common = dict(n_modes=spec["n_modes"], standardize=spec.get("standardize", False), use_coslat=spec.get("use_coslat", False),
                  sample_name=names[0], solver=spec.get("solver", "full"), random_state=spec.get("random_state", 0),
                  compute=spec.get("compute", True), check_nans=spec.get("check_nans", True))
    if fam == "single":
        kw = dict(common, center=spec.get("center", True), feature_name=names[1])
        if cls == "SparsePCA":
            kw.update(alpha=spec.get("sp_alpha", 1e-3), beta=spec.get("sp_beta", 1e-3))
        if cls == "POP":
            kw.update(use_pca=spec.get("use_pca", True), n_pca_modes=spec.get("n_pca_modes", 0.999),
                      pca_init_rank_reduction=spec.get("irr", 1.0))
        if cls == "HilbertEOF":
            kw.update(padding=spec.get("padding", "exp"), decay_factor=spec.get("decay", 0.2))
        if cls == "ExtendedEOF":
            kw.update(tau=spec.get("tau", 1), embedding=spec.get("embedding", 2), n_pca_modes=spec.get("n_pca_modes"))
        if cls == "OPA":
            kw.pop("n_modes")
            return xe.single.OPA(n_modes=spec["n_modes"], tau_max=spec.get("tau_max", 2), n_pca_modes=spec.get("n_pca_modes", 3), **kw)
        return _get(xe.single, cls)(**kw)
    if fam == "cross":
        kw = dict(common, feature_name=names[1], use_pca=spec.get("use_pca", False), n_pca_modes=spec.get("n_pca_modes", "all"),
                  pca_init_rank_reduction=spec.get("irr", 1.0))
        if cls.endswith("CPCCA"):
            kw["alpha"] = spec.get("alpha", 1.0)
        if cls.startswith("Hilbert"):
            kw.update(padding=spec.get("padding", "exp"), decay_factor=spec.get("decay", 0.2))
        return _get(xe.cross, cls)(**kw)
    raise ValueError(cls)


def construct_rotator(spec):
    import xeofs as xe

    cls = spec["cls"]
    r = spec["rot"]
    kw = dict(n_modes=r["n_modes"], power=r.get("power", 1), max_iter=r.get("max_iter", 1000), rtol=r.get("rtol", 1e-8),
              compute=spec.get("compute", True))
    mod = xe.single if (cls in SINGLE_ROT or cls == "HilbertEOFRotator") else xe.cross
    return _get(mod, cls)(**kw)


class Adapter:
    """fit(data_list, dim, weights_list) and list-valued accessors for single/cross models and rotators."""

    def __init__(self, spec, names=("sample", "feature")):
        self.spec = spec
        self.cls = spec["cls"]
        self.fam = family(self.cls)
        self.names = names
        self.base = construct_base(spec, names)
        self.model = self.base
        self.rot = construct_rotator(spec) if is_rotator(self.cls) else None

    @property
    def n_fields(self):
        return 2 if self.fam == "cross" else 1

    def fit(self, data, dim, weights=None):
        if self.fam == "single":
            self.base.fit(data[0], dim, weights=weights[0] if weights else None)
        else:
            self.base.fit(data[0], data[1], dim, weights_X=weights[0] if weights else None,
                          weights_Y=weights[1] if weights else None)
        if self.rot is not None:
            self.rot.fit(self.base)
            self.model = self.rot
        return self

    def n_out_modes(self):
        return self.spec["rot"]["n_modes"] if self.rot is not None else self.spec["n_modes"]

    def scores(self, normalized=False):
        s = self.model.scores(normalized=normalized)
        return list(s) if self.fam == "cross" else [s]

    def components(self, normalized=True):
        if base_of(self.cls) in ("POP", "SparsePCA"):  # no `normalized` switch
            return [self.model.components()]
        c = self.model.components(normalized=normalized)
        return list(c) if self.fam == "cross" else [c]

    def transform(self, data, normalized=False):
        if self.fam == "single":
            return [self.model.transform(data[0], normalized=normalized)]
        out = self.model.transform(X=data[0], Y=data[1], normalized=normalized)
        return list(out)

    def transform_one(self, which, obj, normalized=False):
        if self.fam == "single":
            return self.model.transform(obj, normalized=normalized)
        return self.model.transform(**{"XY"[which]: obj}, normalized=normalized)

    def inverse_transform(self, scores, normalized=False):
        if self.fam == "single":
            if normalized:
                return [self.model.inverse_transform(scores[0], normalized=True)]
            return [self.model.inverse_transform(scores[0])]
        out = self.model.inverse_transform(X=scores[0], Y=scores[1])
        return list(out)

    def norms(self):
        if self.fam == "single":
            return [self.model.data["norms"]]
        return [self.model.data["norm1"], self.model.data["norm2"]]


@st.composite
def preproc_flags(draw, allow_coslat=True):
    return {"center": draw(st.integers(0, 3)) > 0, "standardize": draw(st.integers(0, 2)) == 0,
            "use_coslat": allow_coslat and draw(st.integers(0, 4)) == 0}


alphas = st.one_of(st.sampled_from([0.0, 1.0, 0.5]), st.floats(0.0, 1.0))
