"""Label-wise views of xarray objects, independent of xeofs.

Everything xeofs returns is compared *by label*: an object is flattened into a dict
    (item index, variable name | None, frozenset{(dim, label), ...}) -> value
so element order along a dimension, dimension order and container nesting do not matter.
Only xarray `.dims`, `.indexes`, `.values` and python loops are used.
"""

from __future__ import annotations

import itertools

import numpy as np
import pandas as pd
import xarray as xr


def norm_label(x):
    if isinstance(x, tuple):
        return tuple(norm_label(v) for v in x)
    if isinstance(x, (np.datetime64, pd.Timestamp)):
        return ("dt", int(np.datetime64(x, "ns").astype(np.int64)))
    if isinstance(x, np.generic):
        x = x.item()
    if isinstance(x, float) and x == int(x) and abs(x) < 2**53:
        # 1.0 and 1 are the same label for pandas indexes
        return int(x)
    if isinstance(x, bool):
        return int(x)
    return x


def dim_labels(da: xr.DataArray, dim):
    """Labels along a dimension: index values (tuples for a MultiIndex), or positions if no index."""
    if dim in da.indexes:
        idx = da.indexes[dim]
        return [norm_label(v) for v in idx.tolist()] if not isinstance(idx, pd.DatetimeIndex) else [
            norm_label(v) for v in idx.values
        ]
    return list(range(da.sizes[dim]))


def flatten_da(da: xr.DataArray, row_dims):
    """-> (row_keys, col_keys, M).  Rows: label tuples over `row_dims` (those present, in the
    given order).  Columns: frozenset of (dim, label) over the remaining dims."""
    row_dims = [d for d in row_dims if d in da.dims]
    col_dims = [d for d in da.dims if d not in row_dims]
    arr = da.transpose(*row_dims, *col_dims).values
    rl = [dim_labels(da, d) for d in row_dims]
    cl = [dim_labels(da, d) for d in col_dims]
    row_keys = list(itertools.product(*rl)) if row_dims else [()]
    col_keys = [frozenset(zip(col_dims, c)) for c in itertools.product(*cl)] if col_dims else [frozenset()]
    M = np.asarray(arr).reshape(len(row_keys), len(col_keys))
    return row_keys, col_keys, M


def items_of(obj):
    """Normalise a DataObject into [(item_idx, var_name|None, DataArray)]."""
    out = []
    lst = obj if isinstance(obj, (list, tuple)) else [obj]
    for i, it in enumerate(lst):
        if isinstance(it, xr.Dataset):
            for name, da in it.data_vars.items():
                out.append((i, str(name), da))
        elif isinstance(it, xr.DataArray):
            out.append((i, None, it))
        else:
            raise TypeError(f"not an xarray object: {type(it)}")
    return out


class Table:
    """rows: list of row keys; cols: list of (item, var, frozenset) keys; M: ndarray."""

    def __init__(self, rows, cols, M):
        self.rows, self.cols, self.M = list(rows), list(cols), np.asarray(M)
        self.ri = {r: i for i, r in enumerate(self.rows)}
        self.ci = {c: i for i, c in enumerate(self.cols)}
        if len(self.ri) != len(self.rows):
            raise ValueError("duplicate row keys")
        if len(self.ci) != len(self.cols):
            raise ValueError("duplicate column keys")

    def at(self, rows, cols):
        """Sub-matrix at the given keys (KeyError if a key is absent)."""
        ii = [self.ri[r] for r in rows]
        jj = [self.ci[c] for c in cols]
        return self.M[np.ix_(ii, jj)]

    def drop_nan(self):
        good_c = ~np.all(np.isnan(self.M), axis=0)
        good_r = ~np.all(np.isnan(self.M), axis=1)
        return Table([r for r, g in zip(self.rows, good_r) if g], [c for c, g in zip(self.cols, good_c) if g],
                     self.M[np.ix_(good_r, good_c)])


def table_from_obj(obj, row_dims) -> Table:
    """Flatten any DataObject; all items must share the same row keys (any order)."""
    rows0 = None
    cols, blocks = [], []
    for i, var, da in items_of(obj):
        rk, ck, M = flatten_da(da, row_dims)
        if rows0 is None:
            rows0 = rk
            ri = {r: k for k, r in enumerate(rk)}
        else:
            if set(rk) != set(rows0):
                raise ValueError("items have different row keys")
            perm = [rk.index(r) for r in rows0] if rk != rows0 else None
            if perm is not None:
                M = M[perm]
        cols.extend((i, var, c) for c in ck)
        blocks.append(M)
    return Table(rows0, cols, np.concatenate(blocks, axis=1))


def structure_of(obj):
    """Container kind, per item/var dims and label sets — for structural comparisons."""
    if isinstance(obj, (list, tuple)):
        kind = "list"
    elif isinstance(obj, xr.Dataset):
        kind = "ds"
    else:
        kind = "da"
    items = []
    for i, var, da in items_of(obj):
        items.append((i, var, frozenset(da.dims), {d: frozenset(dim_labels(da, d)) for d in da.dims},
                      {d: isinstance(da.indexes.get(d), pd.MultiIndex) for d in da.dims}))
    kinds = [type(it).__name__ for it in (obj if isinstance(obj, (list, tuple)) else [obj])]
    return kind, kinds, items
