"""Independent numpy reference models (no xeofs imports)."""

from __future__ import annotations

import numpy as np

from .tab import Table

LAT_NAMES = ["latitude", "lats", "lat", "Latitude", "Lats", "Lat", "LATITUDE", "LATS", "LAT"]
EPS32 = float(np.finfo(np.float32).eps)


def col_latitude(colkey):
    """Latitude label of a column key (item, var, frozenset{(dim,label)}), or None."""
    hits = [lab for (d, lab) in colkey[2] if d in LAT_NAMES]
    if len(hits) == 1:
        return float(hits[0])
    return None


def preprocess(T: Table, center=True, std=False, coslat=False, weights: dict | None = None) -> Table:
    """(x - mean)/clip(std_pop, eps32) * sqrt(clip(cos(lat),0,1)) * w, per column; then fully
    missing rows / columns are dropped.  `weights`: dict column-key -> weight (or None)."""
    M = np.array(T.M, dtype=complex if np.iscomplexobj(T.M) else float)
    with np.errstate(all="ignore"):
        if center:
            M = M - np.nanmean(M, axis=0, keepdims=True)
        if std:
            s = np.nanstd(T.M, axis=0, keepdims=True)
            M = M / np.clip(s, EPS32, None)
    if coslat:
        w = np.ones(len(T.cols))
        for j, c in enumerate(T.cols):
            lat = col_latitude(c)
            if lat is None:
                raise ValueError("coslat requested but column has no latitude")
            w[j] = np.sqrt(np.clip(np.cos(np.deg2rad(lat)), 0, 1))
        M = M * w[None, :]
    if weights is not None:
        w = np.array([weights[c] for c in T.cols], dtype=float)
        M = M * w[None, :]
    return Table(T.rows, T.cols, M).drop_nan()


def svd_ref(M):
    """Thin SVD by LAPACK gesdd plus eigenvalues of the Gram matrix by eigh (a different driver)."""
    U, s, Vh = np.linalg.svd(M, full_matrices=False)
    return U, s, Vh


def eig_cov(M, ddof=1):
    """Descending eigenvalues of M^H M/(N-ddof) via eigvalsh on the smaller Gram matrix."""
    n, p = M.shape
    G = (M.conj().T @ M) if p <= n else (M @ M.conj().T)
    lam = np.linalg.eigvalsh((G + G.conj().T) / 2)[::-1] / (n - ddof)
    return np.clip(lam.real, 0, None)


def frac_power(C, a):
    """Hermitian PSD matrix power by eigh; zero eigenvalues stay zero (pseudo power)."""
    w, V = np.linalg.eigh((C + C.conj().T) / 2)
    tol = w.max() * max(C.shape) * np.finfo(float).eps if w.size else 0
    wp = np.where(w > tol, np.abs(w) ** a, 0.0)
    return (V * wp) @ V.conj().T


def analytic_signal(M, padding="exp", decay=0.2):
    """Analytic signal per column along axis 0 as documented by hilbert_transform: optional
    exponential padding towards a linear fit on both sides (each of length n), FFT-based Hilbert
    transform, cut back, then the column mean of the imaginary part (which the padding shifts) is removed."""
    M = np.asarray(M, dtype=float)
    n = M.shape[0]
    y = M
    if padding == "exp":
        x = np.arange(n)
        xe = np.arange(-n, 2 * n)
        A = np.vstack([np.ones(n), x]).T
        coef, *_ = np.linalg.lstsq(A, M, rcond=None)  # (2, p)
        fit = A @ coef
        fit_ext = np.vstack([np.ones(3 * n), xe]).T @ coef
        ano = M - fit
        e = np.exp(-x / n / decay)
        pre = ano[0][None, :] * e[::-1][:, None]
        post = ano[-1][None, :] * e[:, None]
        y = np.concatenate([pre, ano, post], axis=0) + fit_ext
    N = y.shape[0]
    F = np.fft.fft(y, axis=0)
    h = np.zeros(N)
    if N % 2 == 0:
        h[0] = h[N // 2] = 1
        h[1 : N // 2] = 2
    else:
        h[0] = 1
        h[1 : (N + 1) // 2] = 2
    z = np.fft.ifft(F * h[:, None], axis=0)
    if padding == "exp":
        z = z[n : 2 * n]
    return z - 1j * z.imag.mean(axis=0, keepdims=True)


def delay_embed(M, tau, embedding):
    """Rows t = 0..n-(embedding-1)*tau-1; blocks e=0..embedding-1 hold M[t + e*tau]."""
    n = M.shape[0]
    cut = (embedding - 1) * tau
    rows = n - cut
    return [M[e * tau : e * tau + rows] for e in range(embedding)]


def kaiser_varimax_criterion(L):
    """Varimax criterion of the Kaiser-normalised loadings (rows scaled to unit communality)."""
    h = np.sqrt(np.sum(np.abs(L) ** 2, axis=1, keepdims=True))
    h = np.where(h > 0, h, 1.0)
    B = np.abs(L / h) ** 2
    p = L.shape[0]
    return float(np.sum(np.sum(B**2, axis=0) - np.sum(B, axis=0) ** 2 / p))


def pca_ref(X, k):
    """Leading-k right singular basis (p,k) of X and the spectrum."""
    U, s, Vh = np.linalg.svd(X, full_matrices=False)
    return Vh[:k].conj().T, s


def cpcca_ref(X, Y, ax, ay, kx=None, ky=None, ddof_cov=1):
    """Reference CPCCA singular values (all N-1 normalisations). X, Y centred (n,p),(n,q).
    kx, ky: number of leading PCs kept (None = no PCA)."""
    n = X.shape[0]

    def prep(Z, a, k):
        if k is not None:
            V, _ = pca_ref(Z, k)
            Z = Z @ V
        C = Z.conj().T @ Z / (n - ddof_cov)
        T = frac_power(C, (a - 1) / 2) if a < 1 else np.eye(Z.shape[1])
        return Z @ T

    Xw, Yw = prep(X, ax, kx), prep(Y, ay, ky)
    C = Xw.conj().T @ Yw / (n - 1)
    s = np.linalg.svd(C, compute_uv=False)
    return s, Xw, Yw


def close(a, b, rtol, scale=None, atol=0.0):
    a = np.asarray(a)
    b = np.asarray(b)
    if a.shape != b.shape:
        return False, float("inf")
    if a.size == 0:
        return True, 0.0
    nan_a, nan_b = np.isnan(a), np.isnan(b)
    if not np.array_equal(nan_a, nan_b):
        return False, float("nan")
    d = np.abs(np.where(nan_a, 0, a) - np.where(nan_b, 0, b))
    if scale is None:
        scale = max(np.nanmax(np.abs(a)), np.nanmax(np.abs(b))) if a.size else 0.0
    err = float(d.max())
    return bool(err <= rtol * scale + atol), (err / scale if scale else err)
