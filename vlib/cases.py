"""Generated (model, data) cases shared by several checks (C03, C04, C05, C06, C07, C13, C14, C17)."""

from __future__ import annotations

import numpy as np
import xarray as xr
from hypothesis import strategies as st

from . import layouts as L
from . import models as M


@st.composite
def model_case(draw, classes, containers=("da", "ds", "list"), full_modes=False, max_sd=2, max_fd=2, max_size=4,
               min_samples=5, allow_weights=True, kinds=L.KINDS, allow_coslat=True, powers=(1, 2, 3), lose_first=False):
    cls = draw(st.sampled_from(list(classes)))
    fam = M.family(cls)
    base = M.base_of(cls)
    coslat = allow_coslat and draw(st.integers(0, 5)) == 0
    need_p = 2 if (M.is_rotator(cls) or base == "POP") else 1
    lay1 = draw(L.layout(containers=containers, max_sd=max_sd, max_fd=max_fd, max_size=max_size, min_samples=min_samples,
                         lat=coslat, kinds=kinds, min_features=need_p, max_items=2, max_vars=2))
    lays = [lay1]
    if fam == "cross":
        lay2 = draw(L.layout(containers=containers, max_sd=1, max_fd=max_fd, max_size=max_size, min_samples=1, lat=coslat,
                             kinds=kinds, min_features=need_p, max_items=2, max_vars=2))
        lay2["sdims"] = lay1["sdims"]
        lays.append(lay2)
    n = L.n_samples(lay1)
    if lose_first:  # the caller blanks the first label of the first sample dim
        n = n - n // lay1["sdims"][0]["size"]
    ps = [L.n_features(l) for l in lays]
    spec = {"cls": cls, "solver": "full", "random_state": draw(st.integers(0, 50))}
    flags = draw(M.preproc_flags(allow_coslat=False))
    spec["standardize"] = flags["standardize"]
    spec["use_coslat"] = coslat
    if fam == "single":
        spec["center"] = flags["center"] if base != "POP" else True
        rank = min(n, ps[0])
        if base == "POP":
            kmax = min(ps[0], n - 2)
            k = draw(st.integers(2, max(2, kmax)))
            spec.update(use_pca=True, n_pca_modes=k, n_modes=k)
            rank = k
        elif base == "SparsePCA":
            spec["n_modes"] = rank if full_modes else draw(st.integers(1, rank))
            spec.update(sp_alpha=draw(st.sampled_from([1e-3, 1e-2, 0.0])), sp_beta=draw(st.sampled_from([1e-3, 0.0])))
        else:
            lo = 2 if M.is_rotator(cls) else 1
            if M.is_rotator(cls):
                # rotating a numerically null mode (beyond the rank of the centred data) is ill-defined
                rank = max(lo, min(rank, n - 1 if spec["center"] else n))
                if M.is_hilbert_cls(cls):  # the centred analytic signal of n samples has rank <= n//2
                    rank = max(lo, min(rank, n // 2 - 1))
            spec["n_modes"] = rank if full_modes else draw(st.integers(lo, max(lo, rank)))
    else:
        al = list(M.cross_alpha({"cls": cls, "alpha": [draw(M.alphas), draw(M.alphas)]}))
        pp = []
        use_pca, npm = [], []
        hil = M.is_hilbert_cls(cls)
        # the analytic signal of n real samples spans at most n//2 complex dimensions after centring
        nh = max(1, n // 2 - 1)
        for i in range(2):
            up = draw(st.booleans())
            k = None
            if hil and al[i] < 1 and ps[i] > nh:
                up, k = True, nh
            elif hil and al[i] < 1:
                up = False
            elif full_modes and al[i] < 1 and ps[i] > n - 1:
                up, k = True, n - 1  # keeps the whole rank of the centred data
            elif (not full_modes) and al[i] < 1 and not (ps[i] <= n - 2):
                up, k = True, max(1, min(ps[i], n - 2))
            elif up:
                if draw(st.booleans()) and not full_modes:
                    k = draw(st.integers(1, max(1, min(ps[i], n - 2))))
                elif al[i] < 1:
                    k = max(1, min(ps[i], n - 1 if full_modes else n - 2))
            use_pca.append(up)
            npm.append(k if k is not None else "all")
            pp.append(ps[i] if not up else (k if k is not None else min(n, ps[i])))
        rank = min(pp)
        lo = 2 if M.is_rotator(cls) else 1
        if rank < lo:
            rank = lo  # generator guarantees >= 2 features for rotators; PCA may still cut to 1 -> fixed below
            for i in range(2):
                if use_pca[i] and npm[i] != "all" and npm[i] < lo:
                    npm[i] = lo
        spec.update(alpha=al, use_pca=use_pca, n_pca_modes=npm, irr=1.0)
        if M.is_rotator(cls):
            rank = max(lo, min(rank, n - 1))
            if hil:
                rank = max(lo, min(rank, n // 2 - 1))
        spec["n_modes"] = rank if full_modes else draw(st.integers(lo, max(lo, rank)))
        spec["_pp"] = pp
    if M.is_rotator(cls):
        spec["rot"] = {"n_modes": draw(st.integers(2, max(2, spec["n_modes"]))), "power": draw(st.sampled_from(list(powers)))}
    names = draw(st.sampled_from([["sample", "feature"], ["sample", "feature"], ["S", "F"]]))
    return {"cls": cls, "lays": lays, "spec": spec, "names": names,
            # user weights: none / one value per feature / 1-D along the first feature dimension of every array ("partial")
            "weights": allow_weights and draw(st.sampled_from([False, False, False, False, True, "partial"]))}


def to_complex(obj, seed):
    """Add an independent imaginary part to every item (complex-valued input for Complex* models)."""
    rng = np.random.default_rng(seed)

    def one(o):
        if isinstance(o, xr.Dataset):
            return xr.Dataset({n: one(o[n]) for n in o.data_vars}, attrs=o.attrs)
        return o + 1j * xr.DataArray(rng.standard_normal(o.shape), dims=o.dims, coords={d: o.coords[d] for d in o.dims})

    return L.map_items(obj, one)


def weights_like(obj, sdims, seed):
    rng = np.random.default_rng(seed)

    def one(o):
        if isinstance(o, xr.Dataset):
            return xr.Dataset({n: one(o[n]) for n in o.data_vars})
        f = o.isel({d: 0 for d in sdims}, drop=True)
        return xr.DataArray(rng.uniform(0.3, 3.0, f.shape), dims=f.dims, coords={d: f.coords[d] for d in f.dims if d in f.indexes})

    return L.map_items(obj, one)


def partial_weights(obj, sdims):
    """1-D weights along the first feature dimension of every array (the way latitude weights are usually given)."""
    def one(o):
        if isinstance(o, xr.Dataset):
            return xr.Dataset({n: one(o[n]) for n in o.data_vars})
        fd = [d for d in o.dims if d not in sdims]
        f = o.isel({d: 0 for d in o.dims if d != fd[0]}, drop=True)
        return xr.DataArray(np.linspace(0.5, 2.0, f.sizes[fd[0]]), dims=f.dims, coords={d: f.coords[d] for d in f.dims if d in f.indexes})

    return L.map_items(obj, one)


def build_data(desc, seed_shift=0):
    data = []
    for i, lay in enumerate(desc["lays"]):
        obj, _ = L.build(lay, seed_shift=seed_shift)
        if M.is_complex_cls(desc["cls"]):
            obj = to_complex(obj, lay["seed"] + 99 + seed_shift)
        data.append(obj)
    return data


def build_case(desc):
    """-> dict(adapter, data=[obj..], sdims, weights=[..]|None, names)"""
    lays = desc["lays"]
    sdims = L.sample_dims(lays[0])
    data = build_data(desc)
    names = list(desc["names"])
    if names[0] in sdims and len(sdims) > 1:
        names[0] = "S"
    fn = names[1]
    for lay in lays:
        for it in lay["items"]:
            if any(f["name"] == fn for f in it["fpool"]):
                fn = "F"
    names[1] = fn
    weights = None
    if desc.get("weights") == "partial":
        weights = [partial_weights(o, sdims) for o in data]
    elif desc.get("weights"):
        weights = [weights_like(o, sdims, lays[i]["seed"] + 5) for i, o in enumerate(data)]
    spec = dict(desc["spec"])
    if M.family(desc["cls"]) == "cross":
        spec["n_pca_modes"] = list(spec["n_pca_modes"])
    ad = M.Adapter(spec, names=tuple(names))
    return {"adapter": ad, "data": data, "sdims": sdims, "weights": weights, "names": names}


def case_events(desc):
    ev = [f"cls={desc['cls']}"]
    for lay in desc["lays"][:1]:
        ev.extend(L.classes(lay))
    sp = desc["spec"]
    if "alpha" in sp:
        a = M.cross_alpha(sp)
        ev.append("alpha=" + ("1" if min(a) >= 1 else "0" if max(a) <= 0 else "frac"))
        ev.append("pca=" + ("on" if any(sp["use_pca"]) else "off"))
    if "rot" in sp:
        ev.append(f"power={sp['rot']['power']}")
    if desc.get("weights"):
        ev.append("weights" if desc["weights"] is True else f"weights={desc['weights']}")
    return ev
