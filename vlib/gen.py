"""Generators: matrices with prescribed spectra, descriptor strategies, xarray builders.

All randomness inside build functions comes from np.random.default_rng(desc seed), where the
seed itself is a Hypothesis draw -> cases replay and shrink.
"""

from __future__ import annotations

import numpy as np
import xarray as xr
from hypothesis import strategies as st

SPECTRA = ["geometric", "random", "flat", "clustered", "rankdef"]
seeds = st.integers(0, 2**31 - 1)


def spectrum(kind, r, rng, ratio=0.5):
    if kind == "geometric":
        s = ratio ** np.arange(r)
    elif kind == "flat":
        s = np.ones(r)
    elif kind == "clustered":
        base = ratio ** (np.arange(r) // 2)
        s = base * (1 + 1e-3 * ((np.arange(r) % 2) == 0))
    elif kind == "rankdef":
        s = ratio ** np.arange(r)
        nz = max(1, r - max(1, r // 3))
        s[nz:] = 0.0
    elif kind == "random":
        s = np.sort(rng.uniform(0.05, 1.0, r))[::-1]
    else:
        raise ValueError(kind)
    return np.sort(s)[::-1]


def _orth(rng, n, k, cplx):
    A = rng.standard_normal((n, k))
    if cplx:
        A = A + 1j * rng.standard_normal((n, k))
    Q, _ = np.linalg.qr(A)
    return Q[:, :k]


def matrix(seed, n, p, kind="random", scale_exp=0, cplx=False, ratio=0.5, offset=False, center_exact=False):
    """U diag(s) V^H with prescribed singular values (before any centring by xeofs).

    center_exact=True makes the columns of U orthogonal to the ones-vector so the matrix is
    exactly centred and keeps the prescribed spectrum under centring (rank <= n-1)."""
    rng = np.random.default_rng(seed)
    r = min(n - 1 if center_exact else n, p)
    r = max(r, 1)
    s = spectrum(kind, r, rng, ratio) * 10.0**scale_exp
    if center_exact:
        A = rng.standard_normal((n, r))
        if cplx:
            A = A + 1j * rng.standard_normal((n, r))
        A = A - A.mean(axis=0, keepdims=True)
        U, _ = np.linalg.qr(A)
        U = U[:, :r]
    else:
        U = _orth(rng, n, r, cplx)
    V = _orth(rng, p, r, cplx)
    M = (U * s) @ V.conj().T
    if offset:
        off = rng.standard_normal(p) * 10.0**scale_exp * 3
        M = M + off[None, :]
    return M, s


def da2d(M, sample="time", feature="x", lat=None):
    n, p = M.shape
    coords = {sample: np.arange(n), feature: (np.arange(p) if lat is None else np.asarray(lat))}
    return xr.DataArray(M, dims=(sample, feature), coords=coords)


def rel_gaps(s):
    """Relative gaps (s_i - s_{i+1})/s_0 for i=0..len-1 (last vs 0)."""
    s = np.asarray(s, dtype=float)
    if s.size == 0 or s[0] == 0:
        return np.zeros_like(s)
    nxt = np.append(s[1:], 0.0)
    return (s - nxt) / s[0]


# ---- stratified class choice --------------------------------------------------------------------
# Hypothesis' sampled_from is far from uniform over a few hundred cases (observed 12 vs 56 cases for two of 19 classes).
# Every shard of a run is therefore responsible for its own slice of the class list, so that each class receives the
# same share of the budget in every run.  The runner sets STRATUM = (shard index, number of shards, seed).
STRATUM = None


def stratum(classes):
    """The slice of `classes` this shard draws from (all of them outside a sharded run, e.g. in ad-hoc scripts)."""
    classes = list(classes)
    if STRATUM is None:
        return classes
    shard, n_shards, seed = STRATUM
    k = len(classes)
    rot = classes[seed % k:] + classes[:seed % k]
    if k >= n_shards:
        return rot[shard::n_shards]
    return [rot[shard % k]]
