"""Structured xarray inputs: descriptor strategy + deterministic builder.

A layout descriptor is a JSON-able dict:
  container: "da" | "ds" | "list"
  sdims:  [{"name","size","kind","lseed"}]                 sample dims shared by every item
  items:  [{"type": "da"|"ds", "fpool": [{"name","size","kind","lseed"}],
            "vars": [{"name", "fd": [indices into fpool], "oseed"}]}]
  extra_coords: bool     non-index coordinates (scalar, 1-D along a dim, 2-D auxiliary)
  seed: int              value seed
Index kinds: range, int_unsorted, float, float_desc, str, datetime, multi (a user MultiIndex dim).
Preconditions respected by construction (see DESIGN.md section 4): str dim names, unique labels,
no dim called mode/variable, sample_name/feature_name not colliding with user dims, every item holds
all sample dims and >= 1 feature dim, identical sample coordinates across items.
"""

from __future__ import annotations

import numpy as np
import pandas as pd
import xarray as xr
from hypothesis import strategies as st

KINDS = ["range", "int_unsorted", "float", "float_desc", "str", "datetime", "multi"]
SAMPLE_NAMES = ["time", "run", "year"]
FEATURE_NAMES = ["lat", "lon", "lev", "x", "station"]
VAR_NAMES = ["sst", "t2m", "psl"]


def labels(kind, size, lseed, name=""):
    rng = np.random.default_rng(lseed)
    if kind == "range":
        return np.arange(size)
    if kind == "int_unsorted":
        return rng.permutation(np.arange(-20, 20))[:size] * 3
    if kind in ("float", "float_desc"):
        lo, hi = (-90, 90) if name in ("lat",) else (0, 360)
        v = np.sort(np.round(rng.uniform(lo, hi, size * 3), 2))
        v = np.unique(v)[:: max(1, len(np.unique(v)) // size)][:size]
        if len(v) < size:
            v = np.linspace(lo + 1, hi - 1, size)
        return v[::-1].copy() if kind == "float_desc" else v
    if kind == "str":
        pool = ["c", "a", "b", "zz", "B", "aa", "d", "e"] + [f"k{i:02d}" for i in range(max(0, size - 8))]
        return np.array(list(rng.permutation(pool)[:size]), dtype=object).astype(str)
    if kind == "datetime":
        days = rng.permutation(np.arange(0, 40))[:size]
        if rng.random() < 0.5:
            days = np.sort(days)
        return np.datetime64("2001-01-01") + days.astype("timedelta64[D]")
    if kind == "multi":
        a = rng.permutation(np.arange(10, 30))[:size]
        b = np.array(list("xyzuvwpq"))[rng.integers(0, 3, size)]
        return pd.MultiIndex.from_arrays([a, b], names=[f"{name}_a", f"{name}_b"])
    raise ValueError(kind)


@st.composite
def dim_spec(draw, name, max_size, kinds, min_size=1):
    return {"name": name, "size": draw(st.integers(min_size, max_size)), "kind": draw(st.sampled_from(kinds)),
            "lseed": draw(st.integers(0, 10_000))}


@st.composite
def layout(draw, containers=("da", "ds", "list"), max_sd=3, max_fd=3, max_size=4, kinds=KINDS,
           min_samples=3, lat=False, allow_ds_in_list=True, max_vars=3, max_items=3, min_features=1,
           same_dims_only=False):
    container = draw(st.sampled_from(list(containers)))
    nsd = draw(st.integers(1, max_sd))
    snames = draw(st.permutations(SAMPLE_NAMES))[:nsd]
    if nsd == 1 and draw(st.integers(0, 7)) == 0:
        snames = ["sample"]  # a single sample dim may already carry the internal name
    skinds = [k for k in kinds if k != "float_desc"]
    sdims = [draw(dim_spec(n, max_size, skinds)) for n in snames]
    # make sure there are enough samples
    tot = int(np.prod([d["size"] for d in sdims]))
    if tot < min_samples:
        sdims[0]["size"] = max(sdims[0]["size"], min_samples)

    def item(idx, typ):
        nfp = draw(st.integers(1, max_fd))
        fn = list(draw(st.permutations(FEATURE_NAMES))[:nfp])
        if lat:
            fn = ["lat"] + [f for f in fn if f != "lat"][: nfp - 1]
        fkinds = list(kinds)
        fpool = []
        for n in fn:
            k = draw(st.sampled_from(fkinds))
            if n == "lat" and lat and k not in ("float", "float_desc"):
                k = "float"
            fpool.append({"name": n, "size": draw(st.integers(1, max_size)), "kind": k, "lseed": draw(st.integers(0, 10_000))})
        if typ == "da":
            vars_ = [{"name": draw(st.sampled_from([None, "field", VAR_NAMES[idx % 3]])), "fd": list(range(nfp)),
                      "oseed": draw(st.integers(0, 999))}]
        else:
            nv = draw(st.integers(1, max_vars))
            vars_ = []
            for j in range(nv):
                if same_dims_only or draw(st.booleans()):
                    fd = list(range(nfp))
                else:
                    fd = sorted(draw(st.sets(st.integers(0, nfp - 1), min_size=1)))
                    if lat and 0 not in fd:
                        fd = [0] + fd
                vars_.append({"name": VAR_NAMES[j], "fd": fd, "oseed": draw(st.integers(0, 999))})
        return {"type": typ, "fpool": fpool, "vars": vars_}

    if container == "da":
        items = [item(0, "da")]
    elif container == "ds":
        items = [item(0, "ds")]
    else:
        ni = draw(st.integers(1, max_items))
        items = [item(i, "ds" if (allow_ds_in_list and draw(st.integers(0, 4)) == 0) else "da") for i in range(ni)]
    d = {"container": container, "sdims": sdims, "items": items,
         "extra_coords": draw(st.integers(0, 3)) == 0, "seed": draw(st.integers(0, 2**31 - 1))}
    if min_features > 1:
        # enlarge the first feature dim of the first item until enough features exist
        it0 = d["items"][0]
        while n_features(d) < min_features:
            it0["fpool"][it0["vars"][0]["fd"][0]]["size"] += 1
    return d


def n_samples(desc):
    return int(np.prod([d["size"] for d in desc["sdims"]]))


def n_features(desc):
    tot = 0
    for it in desc["items"]:
        for v in it["vars"]:
            tot += int(np.prod([it["fpool"][i]["size"] for i in v["fd"]]))
    return tot


def sample_dims(desc):
    return [d["name"] for d in desc["sdims"]]


def _coord(spec):
    return labels(spec["kind"], spec["size"], spec["lseed"], spec["name"])


def _make_da(desc, it, v, rng, scale=1.0):
    dims_specs = list(desc["sdims"]) + [it["fpool"][i] for i in v["fd"]]
    order = np.random.default_rng(v["oseed"]).permutation(len(dims_specs))
    dims_specs = [dims_specs[i] for i in order]
    shape = [s["size"] for s in dims_specs]
    vals = rng.standard_normal(shape) * scale
    # per-feature offsets so that centring matters
    off_shape = [s["size"] if s["name"] not in sample_dims(desc) else 1 for s in dims_specs]
    vals = vals + rng.standard_normal(off_shape) * 2.0
    coords = {}
    for s in dims_specs:
        lab = _coord(s)
        if isinstance(lab, pd.MultiIndex):
            coords.update(xr.Coordinates.from_pandas_multiindex(lab, s["name"]))
        else:
            coords[s["name"]] = lab
    da = xr.DataArray(vals, dims=[s["name"] for s in dims_specs], coords=coords, name=v["name"])
    if desc.get("extra_coords"):
        sd0 = desc["sdims"][0]
        if sd0["kind"] != "multi":
            da = da.assign_coords({"season": (sd0["name"], np.arange(sd0["size"]) % 2)})
        da = da.assign_coords(height=2.0)
        fds = [it["fpool"][i] for i in v["fd"]]
        if len(fds) >= 2 and fds[0]["kind"] != "multi" and fds[1]["kind"] != "multi":
            # (named after its dims: two variables of one Dataset may pair a shared dim with different partners)
            da = da.assign_coords({f"area_{fds[0]['name']}_{fds[1]['name']}": ((fds[0]["name"], fds[1]["name"]),
                                            np.arange(fds[0]["size"] * fds[1]["size"], dtype=float).reshape(fds[0]["size"], fds[1]["size"]))})
    return da


def build(desc, scale=1.0, seed_shift=0):
    """-> (obj, sample_dims)."""
    rng = np.random.default_rng(desc["seed"] + seed_shift)
    out = []
    for it in desc["items"]:
        if it["type"] == "da":
            out.append(_make_da(desc, it, it["vars"][0], rng, scale))
        else:
            out.append(xr.Dataset({v["name"]: _make_da(desc, it, v, rng, scale) for v in it["vars"]}))
    obj = out if desc["container"] == "list" else out[0]
    return obj, sample_dims(desc)


def classes(desc):
    """Class labels for the evidence histogram."""
    ev = [f"container={desc['container']}", f"nsd={len(desc['sdims'])}"]
    maxfd = max(len(v["fd"]) for it in desc["items"] for v in it["vars"])
    ev.append(f"nfd={maxfd}")
    for s in desc["sdims"]:
        ev.append(f"skind={s['kind']}")
    for it in desc["items"]:
        for f in it["fpool"]:
            ev.append(f"fkind={f['kind']}")
        if it["type"] == "ds" and len({tuple(v['fd']) for v in it['vars']}) > 1:
            ev.append("ds_vars_different_dims")
    if desc.get("extra_coords"):
        ev.append("extra_coords")
    return ev


def nontrivial_layout(desc):
    if desc["container"] != "da" or len(desc["sdims"]) >= 2:
        return True
    if any(len(v["fd"]) >= 2 for it in desc["items"] for v in it["vars"]):
        return True
    return any(s["kind"] != "range" for s in desc["sdims"]) or any(
        f["kind"] != "range" for it in desc["items"] for f in it["fpool"])


def map_items(obj, fn):
    """Apply fn(DataArray|Dataset) to every item of a DataObject keeping the container."""
    if isinstance(obj, (list, tuple)):
        return [fn(o) for o in obj]
    return fn(obj)
