"""CLI: python -m vlib.main <ID> [--tier quick|thorough] [--replay FILE] [--collect] [--seed N]"""
import argparse
import os
import sys


def main(argv=None):
    ap = argparse.ArgumentParser()
    ap.add_argument("prop")
    ap.add_argument("--tier", default=os.environ.get("VERIF_TIER", "quick"), choices=["quick", "thorough"])
    ap.add_argument("--replay")
    ap.add_argument("--collect", action="store_true", help="development: enumerate all violation signatures, no shrinking")
    ap.add_argument("--seed", type=int, default=None)
    ap.add_argument("--shards", type=int, default=None)
    ap.add_argument("--cases", type=int, default=None)
    a = ap.parse_args(argv)
    seed = a.seed if a.seed is not None else int(os.environ.get("VERIF_SEED", "1") or 1)
    from vlib import runner

    try:
        if a.replay:
            return runner.run_replay(a.prop.upper(), a.replay)
        return runner.run_check(a.prop.upper(), a.tier, seed, collect=a.collect,
                                shards_override=a.shards, cases_override=a.cases)
    except SystemExit:
        raise
    except BaseException:
        import traceback

        traceback.print_exc()
        print("HARNESS-ERROR (exit 2)", file=sys.stderr)
        return 2


if __name__ == "__main__":
    sys.exit(main())
