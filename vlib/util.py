"""Small helpers shared by the checks."""

from __future__ import annotations

import contextlib
import io
import os
import warnings

import numpy as np

os.environ.setdefault("TQDM_DISABLE", "1")


class Failed:
    """Sentinel returned by `call` when the wrapped call raised."""

    def __init__(self, exc):
        self.exc = exc

    def __bool__(self):
        return False


def call(ctx, sub, fn, *args, refuse=(), refuse_if=None, disc=None, keep_warnings=False, **kwargs):
    """Run an xeofs call that the property says must succeed.

    An exception is a violation `sub` (discriminated by exception type) unless its type is in
    `refuse` (documented refusal -> the case ends, counted as refused)."""
    try:
        if keep_warnings:  # the caller records warnings itself
            with contextlib.redirect_stdout(io.StringIO()), contextlib.redirect_stderr(io.StringIO()):
                return fn(*args, **kwargs)
        with warnings.catch_warnings():
            warnings.simplefilter("ignore")
            with contextlib.redirect_stdout(io.StringIO()), contextlib.redirect_stderr(io.StringIO()):
                return fn(*args, **kwargs)
    except refuse as e:  # type: ignore[misc]
        if refuse_if is None or refuse_if(e):
            ctx.refused(f"{type(e).__name__}:{str(e)[:40]}")
        d = dict(disc or {})
        d["exc"] = type(e).__name__
        ctx.violation(sub, f"raised {type(e).__name__}: {str(e)[:200]}", **d)
        return Failed(e)
    except Exception as e:  # noqa: BLE001 - the property says the call returns
        d = dict(disc or {})
        d["exc"] = type(e).__name__
        ctx.violation(sub, f"raised {type(e).__name__}: {str(e)[:200]}", **d)
        return Failed(e)


def must_raise(ctx, sub, fn, *args, disc=None, **kwargs):
    """The call must raise some exception; returning is the violation. Returns True if raised."""
    try:
        with warnings.catch_warnings():
            warnings.simplefilter("ignore")
            with contextlib.redirect_stdout(io.StringIO()), contextlib.redirect_stderr(io.StringIO()):
                out = fn(*args, **kwargs)
    except Exception:  # noqa: BLE001
        return True
    ctx.violation(sub, f"returned {type(out).__name__} instead of raising", **(disc or {}))
    return False


def quiet(fn, *args, **kwargs):
    with warnings.catch_warnings():
        warnings.simplefilter("ignore")
        with contextlib.redirect_stdout(io.StringIO()), contextlib.redirect_stderr(io.StringIO()):
            return fn(*args, **kwargs)


def maxabs(a):
    a = np.asarray(a)
    return float(np.nanmax(np.abs(a))) if a.size else 0.0


def relerr(a, b, scale=None):
    a, b = np.asarray(a), np.asarray(b)
    if a.shape != b.shape:
        return float("inf")
    if a.size == 0:
        return 0.0
    if scale is None:
        scale = max(maxabs(a), maxabs(b))
    if scale == 0:
        return 0.0
    na, nb = np.isnan(a), np.isnan(b)
    if not np.array_equal(na, nb):
        return float("inf")
    return float(np.max(np.abs(np.where(na, 0, a) - np.where(nb, 0, b)))) / scale
