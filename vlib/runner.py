"""Generic runner: Hypothesis-driven generated search, sharding, known findings, evidence.

A check module (checks/cNN.py) provides
    ID            property id, e.g. "C01"
    RULE          text: how cases are generated and what makes one non-trivial
    ASSUMPTIONS   list[str]
    TIERS         {"quick": (n_shards, cases_per_shard), "thorough": (n_shards, cases_per_shard)}
    strategy()    Hypothesis strategy producing a JSON-serialisable descriptor (dict)
    run_case(desc, ctx) -> None
                  builds the inputs from the descriptor (all randomness from desc seeds),
                  runs xeofs and the oracle, and reports through ctx:
                    ctx.event(label)            class histogram
                    ctx.nontrivial(flag)        whether the case is non-trivial by RULE
                    ctx.refused(kind)           documented refusal (counted, case ends)
                    ctx.violation(sub, msg, **disc)   a violated sub-assertion
    extra_cases(tier) (optional) -> iterable of descriptors enumerated exhaustively
                  (fault / layout catalogues); run before the random search.

Exit codes: 0 held; 1 violation (prints "VIOLATION property=<id> replay=<path>");
2 harness error (never reported as a violation).
"""

from __future__ import annotations

import hashlib
import importlib
import json
import os
import signal
import sys
import threading
import time
import traceback
import warnings

ROOT = os.path.dirname(os.path.dirname(os.path.abspath(__file__)))


# ----------------------------------------------------------------------------- findings
class Violation(Exception):
    def __init__(self, prop, sub, msg, disc):
        super().__init__(f"{prop}/{sub}: {msg} {disc}")
        self.prop, self.sub, self.msg, self.disc = prop, sub, msg, disc

    def signature(self):
        return (self.prop, self.sub, tuple(sorted((k, str(v)) for k, v in self.disc.items())))

    def to_json(self):
        return {"property": self.prop, "subcheck": self.sub, "msg": self.msg, "disc": self.disc}


class Refusal(Exception):
    """Raised by ctx.refused to end a case that xeofs legitimately refused."""


class HarnessError(Exception):
    pass


class CaseTimeout(BaseException):
    """Raised by the per-case watchdog; derives from BaseException so that no `except Exception` in a check turns it into a verdict."""


def load_known_findings():
    path = os.path.join(ROOT, "known_findings.json")
    if not os.path.exists(path):
        return []
    with open(path) as f:
        data = json.load(f)
    return [e for e in data.get("findings", []) if e.get("status", "open") == "open"]


def _match_value(cond, value):
    if isinstance(cond, dict):
        if "in" in cond:
            return value in cond["in"]
        if "lt" in cond:
            return value is not None and value < cond["lt"]
        if "gt" in cond:
            return value is not None and value > cond["gt"]
        if "ne" in cond:
            return value != cond["ne"]
        if "contains" in cond:
            return isinstance(value, str) and cond["contains"] in value
        raise HarnessError(f"bad condition {cond}")
    return value == cond


def match_known(v: Violation, known):
    for e in known:
        if e["property"] != v.prop or e["subcheck"] != v.sub:
            continue
        where = e.get("where", {})
        if all(_match_value(c, v.disc.get(k)) for k, c in where.items()):
            return e
    return None


# ----------------------------------------------------------------------------- context
class Ctx:
    def __init__(self, prop, known):
        self.prop = prop
        self.known = known
        self.events = []
        self.is_nontrivial = False
        self.violations = []  # unknown
        self.known_hits = []  # (entry, violation)
        self.refusal = None

    def event(self, label):
        self.events.append(str(label))

    def nontrivial(self, flag=True):
        self.is_nontrivial = bool(flag) or self.is_nontrivial

    def refused(self, kind):
        self.refusal = str(kind)
        raise Refusal(kind)

    def violation(self, sub, msg, **disc):
        v = Violation(self.prop, sub, msg, disc)
        e = match_known(v, self.known)
        if e is not None:
            self.known_hits.append((e, v))
        else:
            self.violations.append(v)

    def check(self, cond, sub, msg, **disc):
        if not cond:
            self.violation(sub, msg, **disc)
        return bool(cond)


def canon(desc):
    return json.dumps(desc, sort_keys=True, separators=(",", ":"), default=str)


def dhash(desc):
    return hashlib.sha1(canon(desc).encode()).hexdigest()


# ----------------------------------------------------------------------------- one case
class Stats:
    def __init__(self):
        self.evaluations = 0
        self.nontrivial_hashes = set()
        self.hist = {}
        self.refusals = {}
        self.known = {}  # what -> count
        self.samples = {}  # class label -> desc
        self.sample_list = []
        self.violations = []  # json
        self.errors = []

    def merge_json(self, j):
        self.evaluations += j["evaluations"]
        self.nontrivial_hashes.update(j["nontrivial_hashes"])
        for k, v in j["hist"].items():
            self.hist[k] = self.hist.get(k, 0) + v
        for k, v in j["refusals"].items():
            self.refusals[k] = self.refusals.get(k, 0) + v
        for k, v in j["known"].items():
            self.known[k] = self.known.get(k, 0) + v
        for d in j["sample_list"]:
            if len(self.sample_list) < 12 and d not in self.sample_list:
                self.sample_list.append(d)
        self.violations.extend(j["violations"])
        self.errors.extend(j["errors"])

    def to_json(self):
        return {
            "evaluations": self.evaluations,
            "nontrivial_hashes": sorted(self.nontrivial_hashes),
            "hist": self.hist,
            "refusals": self.refusals,
            "known": self.known,
            "sample_list": self.sample_list,
            "violations": self.violations,
            "errors": self.errors,
        }


def execute_case(mod, desc, known, stats: Stats | None):
    """Run one case. Returns ctx. Raises HarnessError for harness problems."""
    ctx = Ctx(mod.ID, known)
    limit = float(os.environ.get("VERIF_CASE_TIMEOUT") or getattr(mod, "CASE_TIMEOUT", 180))
    armed = False
    if threading.current_thread() is threading.main_thread():
        def on_alarm(signum, frame):
            raise CaseTimeout()
        signal.signal(signal.SIGALRM, on_alarm)
        signal.setitimer(signal.ITIMER_REAL, limit)
        armed = True
    try:
        with warnings.catch_warnings():
            warnings.simplefilter("ignore")
            try:
                mod.run_case(desc, ctx)
            except Refusal:
                pass
            except Violation as v:  # a check may raise directly
                ctx.violation(v.sub, v.msg, **v.disc)
    except CaseTimeout:
        # a time budget hit is inconclusive: neither a pass nor a violation.  It is counted; a run in which more than 5 %
        # of the cases end this way is reported as a harness error (exit 2) by run_check.
        ctx = Ctx(mod.ID, known)
        ctx.refusal = f"INCONCLUSIVE: case exceeded {limit:.0f}s"
        print(f"INCONCLUSIVE: property={mod.ID} case exceeded {limit:.0f}s: {json.dumps(desc, sort_keys=True)[:400]}", file=sys.stderr)
    finally:
        if armed:
            signal.setitimer(signal.ITIMER_REAL, 0)
    if stats is not None:
        stats.evaluations += 1
        seen = set()
        for ev in ctx.events:
            if ev in seen:
                continue
            seen.add(ev)
            stats.hist[ev] = stats.hist.get(ev, 0) + 1
            if ev not in stats.samples and len(stats.samples) < 10 and not ctx.refusal:
                stats.samples[ev] = desc
                if desc not in stats.sample_list:
                    stats.sample_list.append(desc)
        if ctx.refusal:
            stats.refusals[ctx.refusal] = stats.refusals.get(ctx.refusal, 0) + 1
        elif ctx.is_nontrivial:
            stats.nontrivial_hashes.add(dhash(desc))
        for e, v in ctx.known_hits:
            stats.known[e["what"]] = stats.known.get(e["what"], 0) + 1
    return ctx


# ----------------------------------------------------------------------------- shard
def run_shard(mod_name, tier, seed, n_cases, shard_idx, shrink_budget_s, collect=False):
    """Runs in a fresh process. Returns stats JSON (+ first violation with shrunk desc)."""
    try:
        return _run_shard(mod_name, tier, seed, n_cases, shard_idx, shrink_budget_s, collect)
    except BaseException:
        return {
            "evaluations": 0, "nontrivial_hashes": [], "hist": {}, "refusals": {}, "known": {},
            "sample_list": [], "violations": [],
            "errors": [f"shard {shard_idx}: " + traceback.format_exc()],
        }


def _run_shard(mod_name, tier, seed, n_cases, shard_idx, shrink_budget_s, collect):
    setup_paths()
    import hypothesis
    from hypothesis import HealthCheck, Phase, given, settings

    mod = importlib.import_module(mod_name)
    known = load_known_findings()
    stats = Stats()
    collected = {}  # signature -> [count, smallest desc, violation json]

    # enumerated catalogue first (shard 0 takes slice i::n)
    n_shards = int(os.environ.get("VERIF_NSHARDS") or mod.TIERS[tier][0])
    from vlib import gen as _gen
    _gen.STRATUM = (shard_idx, n_shards, int(seed) // 1000)  # (shard seeds are VERIF_SEED*1000 + shard)
    # regression tier: the shrunk descriptors of every defect that was repaired (replays/fixed/<ID>-*.json) run first, so
    # that a defect that returns is reported by its own replay file within seconds
    if shard_idx == 0:
        import glob
        for path in sorted(glob.glob(os.path.join(ROOT, "replays", "fixed", f"{mod.ID}-*.json"))):
            with open(path) as f:
                rdesc = json.load(f)["desc"]
            ctx = execute_case(mod, rdesc, known, stats)
            stats.hist["regression_replay"] = stats.hist.get("regression_replay", 0) + 1
            if ctx.violations:
                if collect:
                    _collect(collected, ctx, rdesc)
                    continue
                stats.violations.append({"desc": rdesc, "violation": ctx.violations[0].to_json(), "shrunk": True, "replay_path": path})
                return stats.to_json()
    if hasattr(mod, "extra_cases"):
        for i, desc in enumerate(mod.extra_cases(tier)):
            if i % n_shards != shard_idx:
                continue
            ctx = execute_case(mod, desc, known, stats)
            stats.hist["enumerated"] = stats.hist.get("enumerated", 0) + 1
            if ctx.violations:
                if collect:
                    _collect(collected, ctx, desc)
                    continue
                v = ctx.violations[0]
                stats.violations.append({"desc": desc, "violation": v.to_json(), "shrunk": False})
                return stats.to_json()

    state = {"first_fail_t": None, "cache": {}, "last_fail": None}

    def body(desc):
        h = dhash(desc)
        if state["first_fail_t"] is not None:
            if h in state["cache"]:
                state["last_fail"] = (desc, state["cache"][h])
                raise state["cache"][h]
            if time.time() - state["first_fail_t"] > shrink_budget_s:
                return  # shrink budget exhausted: stop exploring new candidates
        ctx = execute_case(mod, desc, known, stats if state["first_fail_t"] is None else None)
        if ctx.violations:
            if collect:
                _collect(collected, ctx, desc)
                return
            v = ctx.violations[0]
            if state["first_fail_t"] is None:
                state["first_fail_t"] = time.time()
            state["cache"][h] = v
            state["last_fail"] = (desc, v)
            raise v

    phases = [Phase.generate] if (collect or shrink_budget_s <= 0) else [Phase.generate, Phase.shrink]
    # Stratification: Hypothesis' sampled_from is far from uniform over a few hundred cases (2 vs 67 cases were observed for
    # two classes of one shard).  When the module's strategy takes the model class as an argument, every shard runs its
    # own slice of mod.CLASSES one class at a time, each with an equal share of the shard's budget.
    import inspect
    strata = [None]
    if hasattr(mod, "CLASSES") and "cls" in inspect.signature(mod.strategy).parameters:
        strata = _gen.stratum(mod.CLASSES)
    per = -(-n_cases // len(strata))
    for j, cls in enumerate(strata):
        state.update(first_fail_t=None, cache={}, last_fail=None)
        test = given(mod.strategy() if cls is None else mod.strategy(cls))(body)
        test = settings(
            max_examples=per, database=None, deadline=None, derandomize=False,
            report_multiple_bugs=False, phases=phases, print_blob=False,
            suppress_health_check=[HealthCheck.too_slow, HealthCheck.data_too_large,
                                   HealthCheck.large_base_example],
        )(test)
        test = hypothesis.seed(seed * 101 + j)(test)
        try:
            test()
        except Violation:
            desc, v = state["last_fail"]
            stats.violations.append({"desc": desc, "violation": v.to_json(), "shrunk": len(phases) > 1})
            break
        except hypothesis.errors.Flaky as e:  # pragma: no cover
            if state["last_fail"] is not None:
                desc, v = state["last_fail"]
                stats.violations.append({"desc": desc, "violation": v.to_json(), "shrunk": False,
                                         "note": "flaky during shrinking: " + str(e)[:200]})
                break
            raise
    out = stats.to_json()
    if collect:
        out["collected"] = [
            {"signature": list(map(str, sig)), "count": c, "desc": d, "violation": vj}
            for sig, (c, d, vj) in collected.items()
        ]
    return out


def _collect(collected, ctx, desc):
    for v in ctx.violations:
        sig = v.signature()
        if sig in collected:
            c, d, vj = collected[sig]
            if len(canon(desc)) < len(canon(d)):
                d, vj = desc, v.to_json()
            collected[sig] = [c + 1, d, vj]
        else:
            collected[sig] = [1, desc, v.to_json()]


# ----------------------------------------------------------------------------- paths
def setup_paths():
    src = os.environ.get("XEOFS_SRC", "/repo")
    for p in (ROOT, src):
        if p in sys.path:
            sys.path.remove(p)
    sys.path.insert(0, ROOT)
    sys.path.insert(0, src)
    shim = os.path.join(ROOT, "shims")
    if shim not in sys.path:
        sys.path.append(shim)
    warnings.filterwarnings("ignore")
    os.environ.setdefault("TQDM_DISABLE", "1")


def assert_xeofs_source():
    import xeofs

    src = os.path.realpath(os.environ.get("XEOFS_SRC", "/repo"))
    got = os.path.realpath(os.path.dirname(os.path.dirname(xeofs.__file__)))
    if got != src:
        raise HarnessError(f"xeofs imported from {got}, expected {src}")


# ----------------------------------------------------------------------------- driver
def out_root():
    return os.environ.get("VERIF_OUT") or ROOT


def write_evidence(mod, tier, seed, stats: Stats, wall, extra=None):
    os.makedirs(os.path.join(out_root(), "evidence"), exist_ok=True)
    cov = {
        "evaluations": stats.evaluations,
        "distinct_nontrivial": len(stats.nontrivial_hashes),
        "rule": mod.RULE,
        "samples": stats.sample_list[:10] or [],
        "class_histogram": dict(sorted(stats.hist.items())),
        "refused": stats.refusals,
        "known_finding_hits": stats.known,
        "exhaustive": False,
    }
    if extra:
        cov.update(extra)
    ev = {
        "property_id": mod.ID,
        "tier": tier,
        "seed": int(seed),
        "level": getattr(mod, "LEVEL", "exploration"),
        "coverage": cov,
        "assumptions": list(mod.ASSUMPTIONS),
        "wall_s": round(wall, 2),
        "violations": len(stats.violations),
    }
    path = os.path.join(out_root(), "evidence", f"{mod.ID}.json")
    tmp = path + ".tmp"
    with open(tmp, "w") as f:
        json.dump(ev, f, indent=1, default=str)
    os.replace(tmp, path)
    return path


def save_replay(mod, vrec):
    os.makedirs(os.path.join(out_root(), "replays"), exist_ok=True)
    body = {"property": mod.ID, "desc": vrec["desc"], "violation": vrec["violation"],
            "shrunk": vrec.get("shrunk", False)}
    h = dhash(body["desc"])[:12]
    path = os.path.join(out_root(), "replays", f"{mod.ID}-{h}.json")
    with open(path, "w") as f:
        json.dump(body, f, indent=1, default=str)
    return path


def run_check(prop_id, tier, seed, collect=False, shards_override=None, cases_override=None):
    setup_paths()
    assert_xeofs_source()
    mod_name = f"checks.{prop_id.lower()}"
    mod = importlib.import_module(mod_name)
    n_shards, n_cases = mod.TIERS[tier]
    if shards_override:
        n_shards = shards_override
    if cases_override:
        n_cases = cases_override
    shrink_budget = float(os.environ.get("VERIF_SHRINK_S", "45" if tier == "quick" else "240"))
    t0 = time.time()
    stats = Stats()
    collected_all = []
    import multiprocessing as mp
    from concurrent.futures import ProcessPoolExecutor

    os.environ["VERIF_NSHARDS"] = str(n_shards)
    jobs = [(mod_name, tier, seed * 1000 + i, n_cases, i, shrink_budget, collect) for i in range(n_shards)]
    if n_shards == 1:
        results = [run_shard(*jobs[0])]
    else:
        ctx = mp.get_context("spawn")
        workers = min(n_shards, int(os.environ.get("VERIF_WORKERS", "16")))
        with ProcessPoolExecutor(max_workers=workers, mp_context=ctx) as ex:
            results = list(ex.map(_star, jobs))
    for r in results:
        stats.merge_json(r)
        collected_all.extend(r.get("collected", []))
    # samples: round-robin over the shards (every shard covers other classes)
    stats.sample_list = []
    lists = [list(r.get("sample_list", [])) for r in results]
    for depth in range(max([len(l) for l in lists] + [0])):
        for l in lists:
            if depth < len(l) and l[depth] not in stats.sample_list and len(stats.sample_list) < 12:
                stats.sample_list.append(l[depth])
    wall = time.time() - t0

    known = load_known_findings()
    # KNOWN-FINDING lines: one per listed open finding of this property
    for e in known:
        if e["property"] == mod.ID:
            hits = stats.known.get(e["what"], 0)
            print(f"KNOWN-FINDING: property={mod.ID} {e['what']} [hits this run: {hits}]")

    inconclusive = sum(n for k, n in stats.refusals.items() if k.startswith("INCONCLUSIVE"))
    if inconclusive > max(2, 0.05 * stats.evaluations):
        stats.errors.append(f"{inconclusive} of {stats.evaluations} cases hit the per-case time limit (inconclusive run)")
    if stats.errors:
        for e in stats.errors:
            print("HARNESS-ERROR:", e, file=sys.stderr)
        write_evidence(mod, tier, seed, stats, wall, {"harness_errors": len(stats.errors)})
        return 2

    if collect:
        merged = {}
        for c in collected_all:
            k = tuple(c["signature"])
            if k in merged:
                merged[k]["count"] += c["count"]
                if len(canon(c["desc"])) < len(canon(merged[k]["desc"])):
                    merged[k]["desc"], merged[k]["violation"] = c["desc"], c["violation"]
            else:
                merged[k] = dict(c)
        print(f"# collect: {stats.evaluations} cases, {len(merged)} distinct violation signatures")
        for k, c in sorted(merged.items(), key=lambda kv: -kv[1]["count"]):
            print(f"{c['count']:6d}  {c['violation']['subcheck']}  {c['violation']['disc']}  :: {c['violation']['msg'][:160]}")
            print(f"        desc={canon(c['desc'])[:400]}")
        if os.environ.get("VERIF_COLLECT_JSON"):
            with open(os.environ["VERIF_COLLECT_JSON"], "w") as f:
                json.dump([{"count": c["count"], "violation": c["violation"], "desc": c["desc"]} for c in merged.values()], f, indent=1, default=str)
        print("# histogram:", json.dumps(dict(sorted(stats.hist.items()))))
        print("# refusals:", stats.refusals, " known:", stats.known, f" nontrivial={len(stats.nontrivial_hashes)} wall={wall:.1f}s")
        return 0

    path = write_evidence(mod, tier, seed, stats, wall)
    if stats.violations:
        seen = set()
        for vrec in stats.violations:
            sig = (vrec["violation"]["subcheck"], canon(vrec["violation"]["disc"]))
            if sig in seen:
                continue
            seen.add(sig)
            rp = save_replay(mod, vrec)
            print(f"VIOLATION property={mod.ID} replay={rp}")
            print(f"  {vrec['violation']['subcheck']}: {vrec['violation']['msg'][:300]} {vrec['violation']['disc']}")
        return 1
    print(f"OK property={mod.ID} tier={tier} seed={seed} cases={stats.evaluations} "
          f"nontrivial={len(stats.nontrivial_hashes)} refused={sum(stats.refusals.values())} "
          f"known_hits={sum(stats.known.values())} wall={wall:.1f}s evidence={path}")
    return 0


def _star(args):
    return run_shard(*args)


def run_replay(prop_id, path):
    setup_paths()
    assert_xeofs_source()
    mod = importlib.import_module(f"checks.{prop_id.lower()}")
    with open(path) as f:
        body = json.load(f)
    desc = body["desc"] if "desc" in body else body
    known = load_known_findings()
    ctx = execute_case(mod, desc, known, None)
    for e, v in ctx.known_hits:
        print(f"KNOWN-FINDING: property={mod.ID} {e['what']}")
    if ctx.violations:
        for v in ctx.violations:
            print(f"VIOLATION property={mod.ID} replay={path}")
            print(f"  {v.sub}: {v.msg[:400]} {v.disc}")
        return 1
    print(f"OK replay property={mod.ID} refusal={ctx.refusal}")
    return 0
