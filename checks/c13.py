"""C13 — a model survives serialisation unchanged."""

from __future__ import annotations

import json

import numpy as np
import xarray as xr
from hypothesis import strategies as st

from vlib import cases, layouts as L, models as M
from vlib.tab import table_from_obj
from vlib.util import Failed, call, relerr

ID = "C13"
RULE = (
    "Hypothesis draws a model class (EOF, ComplexEOF, HilbertEOF, ExtendedEOF, OPA, POP, SparsePCA, EOF/ComplexEOF/HilbertEOF rotators, "
    "CPCCA, MCA, CCA, RDA, ComplexMCA, HilbertMCA, CPCCARotator, MCARotator), a layout per field (MultiIndexes, Datasets, lists), "
    "NaN features, parameters (incl. None / bool / list / dict valued ones), user attribute dictionaries from a grammar ('' , '[m/s]', "
    "'{x', 'True', 'None', '[1, 2]', unicode, numbers, lists, bools, None) on arrays, variables and coordinates, a codec (identity, "
    "netCDF attribute encoding + decoding, JSON round trip of all attributes via xarray's zarr attribute encoder) and whether "
    "transform()/compute() were called before serialising. Non-trivial: non-empty attrs, or non-default params, or non-trivial structure."
)
ASSUMPTIONS = [
    "the file layers are not installed: the codecs the library relies on are applied to insert_placeholders(model.serialize()) in memory",
    "only result equality (values at labels, rtol 1e-12) and parameter equality are asserted, not attribute identity",
    "a tree is serialised afresh for every deserialisation (deserialize consumes the tree)",
]
TIERS = {"quick": (8, 30), "thorough": (16, 300)}
CASE_TIMEOUT = 400

CLASSES = (["EOF", "EOF", "ComplexEOF", "HilbertEOF", "ExtendedEOF", "OPA", "POP", "SparsePCA", "EOFRotator", "ComplexEOFRotator",
            "HilbertEOFRotator", "CPCCA", "MCA", "CCA", "RDA", "ComplexMCA", "HilbertMCA", "CPCCARotator", "MCARotator"])
ATTR_VALUES = ["", "[m/s]", "{x", "True", "None", "[1, 2]", "°C µm", "kg m-2 s-1", 1, 2.5, [1, 2], ["a", "b"], "{}", "[", "]", "{'a': 1}", "False", "x]"]
CODECS = ["identity", "netcdf", "json"]


@st.composite
def attr_dict(draw):
    keys = draw(st.lists(st.sampled_from(["units", "long_name", "standard_name", "flag", "valid_range", "comment", "_note"]), max_size=3, unique=True))
    return {k: draw(st.sampled_from(ATTR_VALUES)) for k in keys}


@st.composite
def strategy(draw, cls=None):
    cls = cls or draw(st.sampled_from(CLASSES))  # (the runner stratifies: every shard runs its slice of CLASSES, one class at a time)
    if cls in ("ExtendedEOF", "OPA"):
        lay = draw(L.layout(max_sd=1, max_fd=2, min_samples=12, min_features=3, max_items=2, max_vars=2))
        d = {"cls": cls, "lays": [lay], "spec": {"cls": cls, "n_modes": 2, "solver": "full", "random_state": draw(st.sampled_from([None, 3])),
                                                  "standardize": draw(st.booleans()), "center": True, "use_coslat": False},
             "names": draw(st.sampled_from([["sample", "feature"], ["S", "F"]])), "weights": False}
        if cls == "ExtendedEOF":
            d["spec"].update(tau=1, embedding=2, n_pca_modes=draw(st.sampled_from([None, 2])))
        else:
            d["spec"].update(tau_max=2, n_pca_modes=3)
    else:
        d = draw(cases.model_case([cls], min_samples=8, powers=(1, 2)))
        if d["spec"].get("random_state") is not None and draw(st.booleans()):
            d["spec"]["random_state"] = None
    d["attrs"] = {"data": draw(attr_dict()), "coord": draw(attr_dict()), "var": draw(attr_dict())}
    d["solver_kwargs"] = draw(st.sampled_from([{}, {}, {"n_oversamples": 12}]))
    d["codec"] = draw(st.sampled_from(CODECS))
    d["before"] = draw(st.sampled_from(["nothing", "transform", "compute", "both"]))
    d["nan_features"] = draw(st.integers(0, 3)) == 0
    d["many_items"] = cls in ("EOF", "EOFRotator", "POP") and draw(st.integers(0, 4)) == 0
    return d


def add_attrs(obj, attrs):
    def one(o):
        o = o.copy()
        if isinstance(o, xr.Dataset):
            o.attrs.update(attrs["data"])
            for v in o.data_vars:
                o[v].attrs.update(attrs["var"])
        else:
            o.attrs.update(attrs["data"])
        for c in o.coords:
            if c in o.dims and c in o.indexes and not isinstance(o.indexes[c], __import__("pandas").MultiIndex):
                o[c].attrs.update(attrs["coord"])
        return o
    return L.map_items(obj, one)


def blank_feature(obj, sdims):
    """Make one feature label entirely missing in the first item."""
    def one(o):
        da = o[list(o.data_vars)[0]] if isinstance(o, xr.Dataset) else o
        fd = [d for d in da.dims if d not in sdims and da.sizes[d] >= 2]
        if not fd:
            return o
        d = fd[0]
        mask = xr.DataArray(np.arange(da.sizes[d]) == 0, dims=[d])
        if isinstance(o, xr.Dataset):
            return xr.Dataset({v: (o[v].astype(float).where(~mask) if d in o[v].dims else o[v]) for v in o.data_vars}, attrs=o.attrs)
        return o.astype(float).where(~mask) if not np.iscomplexobj(o) else o.where(~mask)
    if isinstance(obj, list):
        return [one(obj[0])] + obj[1:]
    return one(obj)


def roundtrip_json(dt):
    from xarray.backends.zarr import encode_zarr_attr_value

    def rt(attrs):
        return {k: json.loads(json.dumps(encode_zarr_attr_value(v))) for k, v in attrs.items()}

    for node in dt.subtree:
        node.attrs = rt(dict(node.attrs))
        for v in node.variables:
            node[v].attrs = rt(dict(node[v].attrs))
    return dt


def apply_codec(dt, codec):
    from xeofs.utils.io import _desanitize_attrs_nc, _sanitize_attrs_nc, insert_placeholders

    dt = insert_placeholders(dt)
    if codec == "netcdf":
        return _desanitize_attrs_nc(_sanitize_attrs_nc(dt))
    if codec == "json":
        return roundtrip_json(dt)
    return dt


def norm_params(p):
    return json.loads(json.dumps(p, default=str, sort_keys=True))


def outputs(model, fam, cls, data, sdims):
    """dict name -> list of Tables."""
    out = {}
    base = M.base_of(cls)
    if fam == "cross":
        out["components"] = [table_from_obj(c, ["mode"]) for c in model.components()]
        out["scores"] = [table_from_obj(s, sdims) for s in model.scores()]
        if not M.is_hilbert_cls(cls):
            out["transform"] = [table_from_obj(s, sdims) for s in model.transform(X=data[0], Y=data[1])]
            if not M.is_rotator(cls):
                out["predict"] = [table_from_obj(model.predict(data[0]), sdims)]
        out["inverse_transform"] = [table_from_obj(r, sdims) for r in model.inverse_transform(*model.scores())]
        return out
    comps = model.components()
    out["components"] = [table_from_obj(comps, ["mode"])]
    out["scores"] = [table_from_obj(model.scores(), sdims)]
    if base in ("EOF", "ComplexEOF", "SparsePCA", "POP"):
        out["transform"] = [table_from_obj(model.transform(data[0]), sdims)]
    if base in ("EOF", "ComplexEOF", "HilbertEOF", "SparsePCA", "POP", "ExtendedEOF"):
        out["inverse_transform"] = [table_from_obj(model.inverse_transform(model.scores()), sdims)]
    if base == "OPA":
        out["filter_patterns"] = [table_from_obj(model.filter_patterns(), ["mode"])]
    return out


def build_extra(desc):
    """ExtendedEOF / OPA are not covered by the adapters."""
    import xeofs as xe

    sp = desc["spec"]
    names = desc["names"]
    kw = dict(n_modes=sp["n_modes"], standardize=sp["standardize"], sample_name=names[0], feature_name=names[1],
              solver="randomized" if desc["solver_kwargs"] else "full", random_state=sp["random_state"], solver_kwargs=desc["solver_kwargs"])
    if desc["cls"] == "ExtendedEOF":
        return xe.single.ExtendedEOF(tau=sp["tau"], embedding=sp["embedding"], n_pca_modes=sp["n_pca_modes"], **kw)
    return xe.single.OPA(tau_max=sp["tau_max"], n_pca_modes=sp["n_pca_modes"], **kw)


def run_case(desc, ctx):
    cls = desc["cls"]
    ctx.event(f"cls={cls}")
    ctx.event(f"codec={desc['codec']}")
    ctx.event(f"before={desc['before']}")
    disc = dict(cls=cls, codec=desc["codec"])
    sdims = L.sample_dims(desc["lays"][0])
    fam = M.family(cls)
    if cls in ("ExtendedEOF", "OPA"):
        data = [L.build(desc["lays"][0])[0]]
        names = list(desc["names"])
        dims_all = {d for it in (data[0] if isinstance(data[0], list) else [data[0]]) for d in it.dims}
        if names[0] in dims_all or names[1] in dims_all:
            names = ["S_", "F_"]
        desc = dict(desc, names=names)
        model = build_extra(desc)
        fit = lambda: model.fit(data[0], sdims)  # noqa: E731
        get_model = lambda: model  # noqa: E731
    else:
        d2 = dict(desc)
        d2["spec"] = dict(desc["spec"], solver_kwargs=desc["solver_kwargs"]) if False else desc["spec"]
        case = cases.build_case(d2)
        ad, data = case["adapter"], case["data"]
        fit = lambda: ad.fit(data, sdims, case["weights"])  # noqa: E731
        get_model = lambda: ad.model  # noqa: E731
    rank_reducing = bool(desc["nan_features"] or desc.get("many_items"))  # (both replace features: the generated n_modes may exceed the new rank)
    if desc.get("many_items"):
        # a list of more than ten data objects with different statistics (order of the per-item transformers matters)
        ctx.event("many_items")
        first = data[0][0] if isinstance(data[0], list) else data[0]
        if isinstance(first, xr.Dataset):
            first = first[list(first.data_vars)[0]]
        fdim = [d for d in first.dims if d not in sdims][0]
        data = [[first.isel({fdim: [i % first.sizes[fdim]]}) * (1.0 + 0.37 * i) + 3.0 * i for i in range(12)]]
        desc = dict(desc, nan_features=False, before="compute" if desc["before"] in ("compute", "both") else "nothing")
        case["weights"] = None
    data = [add_attrs(o, desc["attrs"]) for o in data]
    if desc["nan_features"] and not M.is_complex_cls(cls):
        data = [blank_feature(o, sdims) for o in data]
        ctx.event("nan_features")
    if cls not in ("ExtendedEOF", "OPA"):
        fit = lambda: ad.fit(data, sdims, case["weights"])  # noqa: E731
    else:
        fit = lambda: model.fit(data[0], sdims)  # noqa: E731
    has_attrs = any(desc["attrs"][k] for k in desc["attrs"])
    ctx.nontrivial(has_attrs or desc["lays"][0]["container"] != "da" or fam == "cross" or M.is_rotator(cls))
    r = call(ctx, "fit_raises", fit, disc=disc, refuse=(RuntimeError, ValueError),
             refuse_if=lambda e: "did not converge" in str(e) or (rank_reducing and ("less than or equal to the rank" in str(e) or "n_components must be less" in str(e))))
    if isinstance(r, Failed):
        return
    model = get_model()
    if desc["before"] in ("transform", "both") and hasattr(model, "transform") and not M.is_hilbert_cls(cls) and cls not in ("ExtendedEOF", "OPA"):
        # a transform of other data (other sample coordinates) before serialising
        other = cases.build_data(dict(desc, cls=desc["spec"]["cls"]), seed_shift=5)
        d0 = sdims[0]
        other = [L.map_items(o, lambda x: x.isel({d0: slice(0, max(1, x.sizes[d0] - 2))})) for o in other]
        if desc["nan_features"] and not M.is_complex_cls(cls):
            other = [blank_feature(o, sdims) for o in other]
        call(ctx, "transform_raises", (lambda: model.transform(other[0])) if fam == "single" else (lambda: model.transform(X=other[0], Y=other[1])), disc=disc)
    if desc["before"] in ("compute", "both"):
        call(ctx, "compute_raises", model.compute, disc=disc)
    if M.is_rotator(cls) and cls not in ("ExtendedEOF", "OPA"):
        # the base model a rotator was fitted on must still survive serialisation
        base = ad.base
        dtb = call(ctx, "base_serialize_raises", base.serialize, disc=disc)
        if not isinstance(dtb, Failed):
            rb = call(ctx, "base_deserialize_after_rotator_raises", lambda: type(base).deserialize(apply_codec(dtb, desc["codec"])), disc=disc)
            if not isinstance(rb, Failed):
                ca = table_from_obj(base.components()[0] if fam == "cross" else base.components(), ["mode"])
                cb = table_from_obj(rb.components()[0] if fam == "cross" else rb.components(), ["mode"])
                try:
                    e = relerr(cb.at(ca.rows, ca.cols), ca.M)
                    ctx.check(e <= 1e-12, "base_results_changed", f"base model components differ after the round trip ({e:.3g})", **disc)
                except KeyError as err:
                    ctx.violation("labels_changed", f"base components: {err}", **disc)
    ref = call(ctx, "outputs_raise", outputs, model, fam, cls, data, sdims, disc=dict(disc, which="original"))
    if isinstance(ref, Failed):
        return
    dt = call(ctx, "serialize_raises", model.serialize, disc=disc)
    if isinstance(dt, Failed):
        return
    dt2 = call(ctx, "codec_raises", apply_codec, dt, desc["codec"], disc=disc)
    if isinstance(dt2, Failed):
        return
    restored = call(ctx, "deserialize_raises", type(model).deserialize, dt2, disc=disc)
    if isinstance(restored, Failed):
        return
    def flags(m):
        return {str(k): bool(v) for k, v in getattr(m.data, "_allow_compute", {}).items()}
    ctx.check(flags(model) == flags(restored), "allow_compute_flags", f"allow_compute flags differ after the round trip: {flags(model)} vs {flags(restored)}", **disc)
    pa, pb = norm_params(model.get_params()), norm_params(restored.get_params())
    ctx.check(pa == pb, "params_equal", f"parameters differ after the round trip: {pa} vs {pb}", **disc)
    got = call(ctx, "restored_outputs_raise", outputs, restored, fam, cls, data, sdims, disc=dict(disc, which="restored"))
    if isinstance(got, Failed):
        return
    for name in ref:
        for f, (ta, tb) in enumerate(zip(ref[name], got[name])):
            try:
                B = tb.at(ta.rows, ta.cols)
            except KeyError as err:
                ctx.violation("labels_changed", f"{name} field {f}: label {err} missing after the round trip", **dict(disc, output=name))
                continue
            ctx.check(len(tb.rows) == len(ta.rows) and len(tb.cols) == len(ta.cols), "labels_changed", f"{name} field {f}: label sets differ", **dict(disc, output=name))
            e = relerr(B, ta.M)
            ctx.check(e <= 1e-12, "results_changed", f"{name} field {f}: values differ after the round trip (rel err {e:.3g})", **dict(disc, output=name))
