"""C04 — transform of the training data reproduces the model's scores."""

from __future__ import annotations

import numpy as np
import xarray as xr
from hypothesis import strategies as st

from vlib import cases, layouts as L, models as M
from vlib.tab import flatten_da
from vlib.util import Failed, call, relerr

ID = "C04"
RULE = (
    "Hypothesis draws a transform-capable class (EOF, ComplexEOF, SparsePCA, POP, EOF/ComplexEOF rotators, CPCCA/MCA/CCA/RDA "
    "and Complex variants, their rotators, multi.CCA), a layout per field (container x dims x index kinds), alpha in [0,1]^2, "
    "use_pca/n_pca_modes, rotation power 1..3, normalized flag, optional fully missing samples, optional earlier fit of the same object. "
    "Non-trivial: >=2 modes and >=3 samples."
)
ASSUMPTIONS = [
    "comparison by label with rtol 1e-8 relative to the largest |score| of the field",
    "RuntimeError('Rotation process did not converge') is a refusal",
    "fully missing samples may be absent from transform output or NaN",
]
TIERS = {"quick": (8, 80), "thorough": (16, 700)}

CLASSES = (M.SINGLE + list(M.SINGLE_ROT) + M.CROSS + list(M.CROSS_ROT) + ["multi.CCA"])


@st.composite
def strategy(draw, cls=None):
    cls = cls or draw(st.sampled_from(CLASSES))  # (the runner stratifies: every shard runs its slice of CLASSES, one class at a time)
    if cls == "multi.CCA":
        lay1 = draw(L.layout(max_sd=2, max_fd=2, min_samples=8, min_features=2, max_items=2, max_vars=2))
        lay2 = draw(L.layout(max_sd=1, max_fd=2, min_samples=1, min_features=2, max_items=2, max_vars=2))
        lay2["sdims"] = lay1["sdims"]
        return {"cls": cls, "lays": [lay1, lay2], "spec": {"cls": cls, "pca": draw(st.booleans()), "n_modes": 2},
                "names": ["sample", "feature"], "weights": False, "normalized": False, "nan_samples": False}
    nan_samples = draw(st.integers(0, 4)) == 0
    d = draw(cases.model_case([cls], lose_first=nan_samples, min_samples=7 if nan_samples else 5))
    d["normalized"] = draw(st.booleans())
    d["nan_samples"] = nan_samples
    d["refit"] = draw(st.integers(0, 3)) == 0
    return d


def blank_first_sample(obj, sdims):
    d0 = sdims[0]

    def one(o):
        o = o.astype(complex) if np.iscomplexobj(o.to_array() if isinstance(o, xr.Dataset) else o) else o.astype(float)
        idx = o[d0].isin(o[d0].values[:1]) if False else None
        mask = xr.DataArray(np.arange(o.sizes[d0]) == 0, dims=[d0])
        return o.where(~mask)

    return L.map_items(obj, one)


def compare_scores(ctx, sub, sc, tr, sdims, disc, skip_modes=()):
    """scores `sc` vs transform output `tr` (DataArrays) by label. `skip_modes`: mode labels whose
    norm is numerically zero (their normalised scores are 0/0 and not compared)."""
    if not ctx.check(isinstance(tr, xr.DataArray), sub, f"transform returned {type(tr).__name__}", **disc):
        return
    ctx.check(set(tr.dims) == set(sc.dims), sub + "_dims", f"transform dims {tr.dims} != scores dims {sc.dims}", **disc)
    if set(tr.dims) != set(sc.dims):
        return
    rk_s, ck_s, Ms = flatten_da(sc, sdims)
    rk_t, ck_t, Mt = flatten_da(tr, sdims)
    ctx.check(set(ck_t) == set(ck_s), sub + "_modes", f"mode labels {sorted(map(str, ck_t))} != {sorted(map(str, ck_s))}", **disc)
    if set(ck_t) != set(ck_s):
        return
    Mt = Mt[:, [ck_t.index(c) for c in ck_s]]
    keep = [j for j, c in enumerate(ck_s) if dict(c).get("mode") not in skip_modes]
    Ms, Mt = Ms[:, keep], Mt[:, keep]
    ti = {r: i for i, r in enumerate(rk_t)}
    valid = [i for i in range(len(rk_s)) if not np.all(np.isnan(Ms[i]))]
    extra = set(rk_t) - set(rk_s)
    ctx.check(not extra, sub + "_labels", f"transform has sample labels unknown to scores: {sorted(map(str, extra))[:4]}", **disc)
    missing = [rk_s[i] for i in valid if rk_s[i] not in ti]
    if not ctx.check(not missing, sub + "_labels", f"{len(missing)} valid training samples missing from transform output, e.g. {missing[:2]}", **disc):
        return
    A = Ms[valid]
    B = Mt[[ti[rk_s[i]] for i in valid]]
    scale = float(np.nanmax(np.abs(A))) if A.size else 1.0
    e = relerr(B, A, scale=scale if scale > 0 else 1.0)
    ctx.check(e <= 1e-8, sub + "_values", f"transform(training data) != scores (rel err {e:.3g})", **disc)
    # missing samples, if present in the output, must be NaN
    for i in range(len(rk_s)):
        if i not in valid and rk_s[i] in ti:
            ctx.check(np.all(np.isnan(Mt[ti[rk_s[i]]])), sub + "_nan_samples", "fully missing sample got numbers", **disc)


def run_multi(desc, ctx):
    import xeofs as xe

    data = [L.build(l)[0] for l in desc["lays"]]
    sdims = L.sample_dims(desc["lays"][0])
    ctx.event("cls=multi.CCA")
    disc = dict(cls="multi.CCA")
    model = xe.multi.CCA(n_modes=2, pca=desc["spec"]["pca"], init_pca_modes=1.0, variance_fraction=0.999)
    if isinstance(call(ctx, "fit_raises", model.fit, data, sdims, disc=disc), Failed):
        return
    ctx.nontrivial(True)
    sc = call(ctx, "scores_raises", model.scores, disc=disc)
    tr = call(ctx, "transform_raises", model.transform, data, disc=disc)
    if isinstance(sc, Failed) or isinstance(tr, Failed):
        return
    ctx.check(len(tr) == len(sc), "transform_count", f"{len(tr)} outputs for {len(sc)} views", **disc)
    for i, (s, t) in enumerate(zip(sc, tr)):
        compare_scores(ctx, "transform_eq_scores", s, t, sdims, dict(disc, field=i))


def run_case(desc, ctx):
    if desc["cls"] == "multi.CCA":
        return run_multi(desc, ctx)
    case = cases.build_case(desc)
    ad, data, sdims, w = case["adapter"], case["data"], case["sdims"], case["weights"]
    for ev in cases.case_events(desc):
        ctx.event(ev)
    if desc["nan_samples"]:
        data = [blank_first_sample(o, sdims) for o in data]
        ctx.event("nan_samples")
    sp = desc["spec"]
    a = M.cross_alpha(sp) if ad.fam == "cross" else (1.0, 1.0)
    disc = dict(cls=desc["cls"], alpha_lt1=bool(min(a) < 1), power=sp.get("rot", {}).get("power", 0))
    if desc.get("refit"):
        # the same model (and rotator) object was fitted before on other data of the same layout
        ctx.event("refit")
        alt = cases.build_data(desc, seed_shift=17)
        if desc["nan_samples"]:
            alt = [blank_first_sample(o, sdims) for o in alt]
        pre = call(ctx, "fit_raises", ad.fit, alt, sdims, w, refuse=(RuntimeError,),
                   refuse_if=lambda e: "did not converge" in str(e), disc=disc)
        if isinstance(pre, Failed):
            return
    fit = call(ctx, "fit_raises", ad.fit, data, sdims, w, refuse=(RuntimeError,),
               refuse_if=lambda e: "did not converge" in str(e), disc=disc)
    if isinstance(fit, Failed):
        return
    norm = desc["normalized"]
    ctx.event(f"normalized={norm}")
    n = L.n_samples(desc["lays"][0])
    ctx.nontrivial(ad.n_out_modes() >= 2 and n >= 3)
    sc = call(ctx, "scores_raises", ad.scores, norm, disc=disc)
    tr = call(ctx, "transform_raises", ad.transform, data, norm, disc=disc)
    if isinstance(sc, Failed) or isinstance(tr, Failed):
        return
    skips = [()] * len(sc)
    if norm:
        skips = []
        for nm in ad.norms():
            v = np.abs(np.asarray(nm.values, dtype=float))
            skips.append(tuple(int(m) for m, x in zip(nm["mode"].values, v) if x <= 1e-9 * (v.max() if v.size else 1)))
        if any(skips):
            ctx.event("zero_norm_mode_skipped")
    for i, (s, t) in enumerate(zip(sc, tr)):
        compare_scores(ctx, "transform_eq_scores", s, t, sdims, dict(disc, field=i), skips[i])
    if ad.fam == "cross":
        # each field on its own
        for i in range(2):
            t1 = call(ctx, "transform_raises", ad.transform_one, i, data[i], norm, disc=dict(disc, single_field=i))
            if not isinstance(t1, Failed):
                compare_scores(ctx, "transform_one_field_eq_scores", sc[i], t1, sdims, dict(disc, field=i), skips[i])
