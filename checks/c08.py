"""C08 — centring, standardisation and weights mean exactly what the options say (metamorphic)."""

from __future__ import annotations

import numpy as np
import xarray as xr
from hypothesis import strategies as st

from vlib import layouts as L
from vlib import oracle
from vlib.tab import table_from_obj
from vlib.util import Failed, call, relerr

ID = "C08"
RULE = (
    "Hypothesis draws a layout (container x dims x index kinds), a relation in {shift (center on), affine (standardize on), "
    "weights = pre-multiplied data, coslat = sqrt(cos(lat)) weights under every accepted latitude name incl. +-90 degrees, "
    "global factor c in +-[1e-4,1e4], general reference}, a model (EOF, MCA, CCA, CPCCA) and which field the change applies to. "
    "Per-feature shifts up to 1e6 x scale, positive scalings 1e-3..1e3. Non-trivial: non-zero shift / non-unit scale / non-constant weights."
)
ASSUMPTIONS = [
    "both fits use the exact solver; results are compared by label with rtol 1e-7 (1e-6 for shifts of 1e6 x scale, where the "
    "representable precision of the anomalies is ~1e-10)",
    "weights = pre-multiplied data is asserted with standardisation off (with it on the pre-multiplication is undone)",
    "for cross-set models the closed-form singular-value scaling is asserted for MCA (x|c|) and CCA (invariant) only",
]
TIERS = {"quick": (8, 120), "thorough": (16, 900)}

LAT_NAMES = ["latitude", "lats", "lat", "Latitude", "Lats", "Lat", "LATITUDE", "LATS", "LAT"]
RELS = ["shift", "affine", "weights", "coslat", "scale", "reference"]
MODELS = ["EOF", "EOF", "MCA", "CCA", "CPCCA"]


CLASSES = [f"{r}/{m}" for r in RELS for m in ["EOF", "MCA", "CCA", "CPCCA"]]  # strata of the runner (relation x model)


@st.composite
def strategy(draw, cls=None):
    if cls is None:
        rel = draw(st.sampled_from(RELS))
        model = draw(st.sampled_from(MODELS))
    else:
        rel, model = cls.split("/")
    lay = draw(L.layout(lat=rel == "coslat", max_sd=2, max_fd=2, min_samples=8, max_items=2, max_vars=2, min_features=2))
    lays = [lay]
    if model != "EOF":
        lay2 = draw(L.layout(lat=rel == "coslat", max_sd=1, max_fd=2, min_samples=1, max_items=2, max_vars=2, min_features=2))
        lay2["sdims"] = lay["sdims"]
        lays.append(lay2)
    return {"rel": rel, "model": model, "lays": lays, "seed": draw(st.integers(0, 2**31 - 1)),
            "shift_exp": draw(st.sampled_from([0, 2, 4, 6])), "scale_exp": draw(st.sampled_from([1, 2, 3])),
            "c": draw(st.floats(-4, 4)), "c_sign": draw(st.sampled_from([1, 1, -1])),
            "field": draw(st.integers(0, 1)), "lat_name": draw(st.sampled_from(LAT_NAMES)), "poles": draw(st.booleans()),
            "coslat_fields": draw(st.sampled_from(["both", "both", "x", "y"])),  # cross-set: use_coslat per field
            "alpha": draw(st.sampled_from([0.0, 0.5, 1.0, 0.3])), "standardize": draw(st.booleans()), "center": draw(st.integers(0, 3)) > 0,
            "kfrac": draw(st.floats(0, 1))}


def extra_cases(tier):
    """Every accepted latitude name once per model family and pole setting (the names are a closed catalogue)."""
    def lay(shift, nlat):
        pool = [{"name": "lat", "size": nlat, "kind": "float", "lseed": 3 + shift}, {"name": "lon", "size": 2, "kind": "range", "lseed": 4 + shift}]
        return {"container": "da", "sdims": [{"name": "time", "size": 12, "kind": "range", "lseed": 1}],
                "items": [{"type": "da", "fpool": pool, "vars": [{"name": "field", "fd": [0, 1], "oseed": shift}]}], "extra_coords": False, "seed": 50 + shift}

    for i, name in enumerate(LAT_NAMES):
        for j, model in enumerate(["EOF", "MCA", "CPCCA"]):
            yield {"rel": "coslat", "model": model, "lays": [lay(0, 3)] + ([lay(7, 2)] if model != "EOF" else []), "seed": 100 + i, "shift_exp": 0, "scale_exp": 1,
                   "c": 1.0, "c_sign": 1, "field": 0, "lat_name": name, "poles": (i + j) % 2 == 0, "coslat_fields": ["both", "x", "y"][(i + j) % 3],
                   "alpha": 0.5, "standardize": False, "center": True, "kfrac": 0.5}


def feature_field(obj, sdims, fn):
    """A DataObject shaped like the feature part of obj with values from fn(shape)."""
    def one(o):
        if isinstance(o, xr.Dataset):
            return xr.Dataset({n: one(o[n]) for n in o.data_vars})
        f = o.isel({d: 0 for d in sdims}, drop=True)
        return xr.DataArray(fn(f.shape), dims=f.dims, coords={d: f.coords[d] for d in f.dims if d in f.indexes})
    return L.map_items(obj, one)


def combine(obj, fld, op):
    def one(o, f):
        if isinstance(o, xr.Dataset):
            return xr.Dataset({n: op(o[n], f[n]) for n in o.data_vars}, attrs=o.attrs)
        return op(o, f)
    if isinstance(obj, list):
        return [one(o, f) for o, f in zip(obj, fld)]
    return one(obj, fld)


def set_lat(obj, name, seed, poles):
    """Rename the 'lat' dim and give it latitudes in [-90, 90] (optionally touching the poles)."""
    def one(o):
        n = o.sizes["lat"]
        rng = np.random.default_rng(seed + n)
        lats = np.sort(np.round(rng.uniform(-89, 89, n), 3))
        if len(np.unique(lats)) < n:
            lats = np.linspace(-80, 80, n)
        if poles and n >= 2:
            lats[0], lats[-1] = -90.0, 90.0
        elif poles:
            lats[0] = 90.0
        o = o.assign_coords(lat=lats)
        return o.rename({"lat": name}) if name != "lat" else o
    return L.map_items(obj, one)


def fit(desc, data, sdims, k, weights=None, center=True, standardize=False, coslat=False):
    import xeofs as xe

    m = desc["model"]
    if m == "EOF":
        mod = xe.single.EOF(n_modes=k, center=center, standardize=standardize, use_coslat=coslat, solver="full")
        mod.fit(data[0], sdims, weights=weights[0] if weights else None)
        return mod
    kw = dict(n_modes=k, standardize=standardize, use_coslat=list(coslat) if isinstance(coslat, (list, tuple)) else coslat, use_pca=False, solver="full")
    if m == "CPCCA":
        kw["alpha"] = desc["alpha"]
    mod = getattr(xe.cross, m)(**kw)
    mod.fit(data[0], data[1], sdims, weights_X=weights[0] if weights else None, weights_Y=weights[1] if weights else None)
    return mod


def outputs(mod, single, sdims):
    """-> dict of label tables / vectors."""
    if single:
        return {"sv": np.asarray(mod.singular_values().values, dtype=float), "ev": np.asarray(mod.explained_variance().values, dtype=float),
                "ratio": np.asarray(mod.explained_variance_ratio().values, dtype=float),
                "comps": [table_from_obj(mod.components(), ["mode"])], "scores": [table_from_obj(mod.scores(), sdims)]}
    c, s = mod.components(), mod.scores()
    return {"sv": np.asarray(mod.data["singular_values"].values, dtype=float),
            "scf": np.asarray(mod.squared_covariance_fraction().values, dtype=float),
            "cc": np.asarray(mod.cross_correlation_coefficients().values, dtype=float),
            "comps": [table_from_obj(x, ["mode"]) for x in c], "scores": [table_from_obj(x, sdims) for x in s]}


def cmp_tables(ctx, sub, A, B, tol, disc, factor=1.0):
    for f, (a, b) in enumerate(zip(A, B)):
        fac = factor[f] if isinstance(factor, (list, tuple)) else factor
        try:
            got = b.at(a.rows, a.cols)
        except KeyError as e:
            ctx.violation(sub, f"field {f}: label {e} missing", **disc)
            continue
        e = relerr(got, a.M * fac, scale=float(np.nanmax(np.abs(a.M * fac))) or 1.0)
        ctx.check(e <= tol, sub, f"field {f}: rel err {e:.3g}", **dict(disc, field=f))


def run_case(desc, ctx):
    rel, model = desc["rel"], desc["model"]
    single = model == "EOF"
    ctx.event(f"rel={rel}")
    ctx.event(f"model={model}")
    for ev in L.classes(desc["lays"][0]):
        ctx.event(ev)
    sdims = L.sample_dims(desc["lays"][0])
    data = [L.build(l)[0] for l in desc["lays"]]
    rng = np.random.default_rng(desc["seed"])
    n = L.n_samples(desc["lays"][0])
    ps = [L.n_features(l) for l in desc["lays"]]
    alpha = {"MCA": 1.0, "CCA": 0.0, "CPCCA": desc["alpha"]}.get(model, 1.0)
    if not single and alpha < 1 and max(ps) > n - 2:
        ctx.refused("generator: whitening needs n-2 >= p")
    rank = min(n - 1, min(ps))
    k = rank  # all non-null modes: the separation of every compared mode from its neighbours is then known
    disc = dict(rel=rel, model=model)
    which = [0] if single else ([desc["field"]] if rel in ("scale",) else [0, 1])
    tol = 1e-7
    fac_c = 1.0
    std, cen = desc["standardize"], desc["center"]
    ctx.nontrivial(True)

    def do_fit(tag, *a, **kw):
        return call(ctx, "fit_raises", fit, desc, *a, disc=dict(disc, which=tag), **kw)

    if rel == "shift":
        shift = [feature_field(d, sdims, lambda s: rng.standard_normal(s) * 10.0 ** desc["shift_exp"]) for d in data]
        data2 = [combine(d, s, lambda x, f: x + f) if i in which else d for i, (d, s) in enumerate(zip(data, shift))]
        a = do_fit("base", data, sdims, k, center=True, standardize=std)
        b = do_fit("shifted", data2, sdims, k, center=True, standardize=std)
        tol = 1e-7 * max(1.0, 10.0 ** (desc["shift_exp"] - 3))
        fac_s = fac_sv = 1.0
    elif rel == "affine":
        sc = [feature_field(d, sdims, lambda s: 10.0 ** rng.uniform(-desc["scale_exp"], desc["scale_exp"], s)) for d in data]
        shift = [feature_field(d, sdims, lambda s: rng.standard_normal(s) * 10.0 ** desc["shift_exp"]) for d in data]
        data2 = [combine(combine(d, s_, lambda x, f: x * f), sh, lambda x, f: x + f) if i in which else d
                 for i, (d, s_, sh) in enumerate(zip(data, sc, shift))]
        a = do_fit("base", data, sdims, k, center=True, standardize=True)
        b = do_fit("affine", data2, sdims, k, center=True, standardize=True)
        tol = 1e-7 * max(1.0, 10.0 ** (desc["shift_exp"] + desc["scale_exp"] - 4))
        fac_s = fac_sv = 1.0
    elif rel == "weights":
        w = [feature_field(d, sdims, lambda s: rng.uniform(0.2, 5.0, s)) for d in data]
        data2 = [combine(d, w_, lambda x, f: x * f) for d, w_ in zip(data, w)]
        a = do_fit("weighted", data, sdims, k, weights=w, center=cen if single else True, standardize=False)
        b = do_fit("premultiplied", data2, sdims, k, center=cen if single else True, standardize=False)
        fac_s = fac_sv = 1.0
    elif rel == "coslat":
        data = [set_lat(d, desc["lat_name"], desc["seed"] + i, desc["poles"]) for i, d in enumerate(data)]
        ctx.event(f"lat_name={desc['lat_name']}")
        if desc["poles"]:
            ctx.event("poles")
        name = desc["lat_name"]
        w = [L.map_items(feature_field(d, sdims, np.ones),
                         lambda f: (f * np.sqrt(np.cos(np.deg2rad(f[name])).clip(0, 1))) if not isinstance(f, xr.Dataset)
                         else xr.Dataset({v: f[v] * np.sqrt(np.cos(np.deg2rad(f[v][name])).clip(0, 1)) for v in f.data_vars})) for d in data]
        flags = True
        if not single:
            cf = desc.get("coslat_fields", "both")
            flags = [cf in ("both", "x"), cf in ("both", "y")]
            ctx.event(f"coslat_fields={cf}")
            w = [wi if fl else None for wi, fl in zip(w, flags)]
        a = do_fit("coslat", data, sdims, k, center=cen if single else True, standardize=std, coslat=flags)
        b = do_fit("weights", data, sdims, k, weights=w, center=cen if single else True, standardize=std)
        fac_s = fac_sv = 1.0
    elif rel == "scale":
        c = desc["c_sign"] * 10.0 ** desc["c"]
        data2 = [L.map_items(d, lambda x: x * c) if i in which else d for i, d in enumerate(data)]
        a = do_fit("base", data, sdims, k, center=cen if single else True, standardize=False)
        b = do_fit("scaled", data2, sdims, k, center=cen if single else True, standardize=False)
        # field scaled by c with whitening degree alpha: X_w -> sign(c)|c|^alpha X_w, physical patterns -> |c|^(1-alpha) patterns
        al = 1.0 if single else alpha
        fac_s = [np.sign(c) * abs(c) ** al if i in which else 1.0 for i in range(len(data))]
        fac_c = [abs(c) ** (1 - al) if i in which else 1.0 for i in range(len(data))]
        fac_sv = abs(c) ** al
        ctx.event("c<0" if c < 0 else "c>0")
    else:  # reference: general preprocessing against the numpy oracle
        w = [feature_field(d, sdims, lambda s: rng.uniform(0.2, 5.0, s)) for d in data]
        a = do_fit("model", data, sdims, k, weights=w, center=cen if single else True, standardize=std)
        if isinstance(a, Failed):
            return
        svs = []
        for d, w_ in zip(data, w):
            T = table_from_obj(d, sdims)
            wt = table_from_obj(w_, [])
            P = oracle.preprocess(T, cen if single else True, std, False, {c_: wt.M[0, j] for j, c_ in enumerate(wt.cols)})
            svs.append(P)
        if single:
            sref = np.linalg.svd(svs[0].M, compute_uv=False)[:k]
            got = np.asarray(a.singular_values().values, dtype=float)
        elif model == "MCA":
            sref = np.linalg.svd(svs[0].M.T @ svs[1].M / (n - 1), compute_uv=False)[:k]
            got = np.asarray(a.data["singular_values"].values, dtype=float)
        else:
            return
        e = relerr(got, sref)
        ctx.check(e <= 1e-8, "general_reference_singular_values", f"singular values differ from the reference preprocessing ({e:.3g})", **disc)
        return
    if isinstance(a, Failed) or isinstance(b, Failed):
        return
    A, B = outputs(a, single, sdims), outputs(b, single, sdims)
    # singular values
    if single or rel != "scale" or model in ("MCA", "CCA"):
        # (closed forms: x|c| for EOF/MCA, invariant for CCA; for intermediate alpha only the invariances below are asserted)
        e = relerr(B["sv"], A["sv"] * fac_sv, scale=A["sv"][0] * fac_sv)
        ctx.check(e <= tol * (1 if single else 10), "singular_values", f"rel err {e:.3g}: {B['sv'][:3]} vs {(A['sv'] * fac_sv)[:3]}", **disc)
    # separation of modes (components/scores only for separated modes)
    s = A["sv"]
    sep = np.ones(len(s), dtype=bool)
    for i in range(len(s)):
        nb = [s[j] for j in (i - 1, i + 1) if 0 <= j < len(s)]
        if any(abs(s[i] - x) <= 1e-4 * s[0] for x in nb) or s[i] <= 1e-6 * s[0]:
            sep[i] = False
    if len(s) == rank or True:
        pass
    if single:
        if rel == "scale":
            e = relerr(B["ev"], A["ev"] * fac_sv**2, scale=A["ev"][0] * fac_sv**2)
            ctx.check(e <= tol, "explained_variance_scaling", f"rel err {e:.3g}", **disc)
        if cen:
            e = relerr(B["ratio"], A["ratio"], scale=1.0)
            ctx.check(e <= tol, "variance_ratio_invariant", f"rel err {e:.3g}", **disc)
    if not sep.all() or k < 1:
        ctx.event("degenerate_modes_components_skipped")
        return
    if not single:
        e = relerr(B["scf"], A["scf"], scale=1.0)
        ctx.check(e <= tol * 10, "scf_invariant", f"squared covariance fraction changed ({e:.3g})", **disc)
        e = relerr(B["cc"], A["cc"], scale=1.0)
        ctx.check(e <= tol * 10, "correlation_invariant", f"cross correlation coefficients changed ({e:.3g})", **disc)
    # the sign of a mode is fixed by its largest-magnitude loading (internal space); with a tie either sign is legitimate
    V = np.asarray((a.data["components"] if single else a.data["components2"]).transpose(..., "mode").values)
    tie = False
    for j in range(V.shape[1]):
        m_ = np.sort(np.abs(V[:, j]))[::-1]
        if len(m_) > 1 and m_[0] - m_[1] < 1e-6 * m_[0]:
            tie = True
    if tie:
        ctx.event("sign_tie_components_skipped")
        return
    # last retained mode must also be separated from the first discarded one: only safe when all modes are kept or gap known
    ctol = tol * 100
    if rel == "affine":
        # components live in standardized space: unchanged; public components are not rescaled by std
        pass
    if (not single) and rel == "scale" and c < 0:
        # A negative factor on one field flips the sign of the cross-covariance; the sign convention is anchored on the
        # second field's singular vectors, so one field's (components, scores) pair changes sign jointly. What is
        # determined is the product: compare with one sign per field and mode taken from the components.
        ctx.event("negative_c_cross_joint_sign")
        for f in range(2):
            ca, cb, sa, sb = A["comps"][f], B["comps"][f], A["scores"][f], B["scores"][f]
            try:
                Cb = cb.at(ca.rows, ca.cols)
                Sb = sb.at(sa.rows, sa.cols)
            except KeyError as err:
                ctx.violation("components", f"field {f}: label {err} missing", **disc)
                continue
            fc = fac_c[f] if isinstance(fac_c, list) else fac_c
            sg = np.sign(np.nansum(ca.M * Cb, axis=1))  # per mode (rows of the component table are modes)
            e = relerr(Cb, ca.M * fc * sg[:, None], scale=float(np.nanmax(np.abs(ca.M * fc))) or 1.0)
            ctx.check(e <= ctol, "components", f"field {f}: rel err {e:.3g} (up to the joint sign)", **dict(disc, field=f))
            # scores: columns are modes ordered like the component rows
            order = [sa.cols.index((0, None, frozenset({("mode", m[0])}))) for m in ca.rows]
            fs = (c * abs(c) ** (alpha - 1) if f in which else 1.0)  # = sign(c)|c|^alpha for the scaled field
            want = sa.M[:, order] * fs * sg[None, :] * (np.sign(c) if f in which else 1.0) * (np.sign(c) if f in which else 1.0)
            # joint sign: scores' * components' = c * scores * components for the scaled field, unchanged for the other
            want = sa.M[:, order] * sg[None, :] * ((c / fc) if f in which else 1.0)
            e = relerr(Sb[:, order], want, scale=float(np.nanmax(np.abs(want))) or 1.0)
            ctx.check(e <= ctol, "scores", f"field {f}: rel err {e:.3g} (up to the joint sign)", **dict(disc, field=f))
        return
    cmp_tables(ctx, "components", A["comps"], B["comps"], ctol, disc, factor=fac_c)
    cmp_tables(ctx, "scores", A["scores"], B["scores"], ctol, disc, factor=fac_s)
