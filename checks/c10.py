"""C10 — named methods coincide with the general method at their special parameter values."""

from __future__ import annotations

import numpy as np
import xarray as xr
from hypothesis import strategies as st

from vlib.runner import Violation
from vlib.util import Failed, call, relerr

ID = "C10"
RULE = (
    "Hypothesis draws one of the listed pairs (MCA/CCA/RDA vs CPCCA at alpha 1/0/(0,1); MCA(X,X) vs EOF(X); Complex model on "
    "real data vs real model; ExtendedEOF(embedding=1) vs EOF; SparsePCA(alpha=beta=0) vs EOF; PCA keeping all modes vs no PCA; "
    "two-view multi.CCA vs cross CCA), shared data with latent signals, and the remaining free parameters (n_modes, "
    "standardize, solver, PCA setting). Non-trivial: >= 2 modes."
)
ASSUMPTIONS = [
    "components/scores are compared after per-mode sign alignment (granted by the property) and only for modes whose "
    "singular value is separated from its neighbours by a relative gap > 1e-3; singular values/variances are always compared",
    "tolerance 1e-8 * cond^(1-alpha)",
    "multi.CCA vs cross CCA: canonical correlations = Pearson correlation of paired score series",
]
TIERS = {"quick": (8, 160), "thorough": (16, 1200)}

PAIRS = ["MCA=CPCCA1", "CCA=CPCCA0", "RDA=CPCCA01", "MCAxx=EOF", "ComplexEOF=EOF", "ComplexCPCCA=CPCCA", "ComplexMCA=MCA",
         "EEOF1=EOF", "SparsePCA0=EOF", "PCAall=noPCA", "multiCCA=CCA"]


@st.composite
def strategy(draw):
    pair = draw(st.sampled_from(PAIRS))
    n = draw(st.integers(10, 40))
    p1 = draw(st.integers(2, 7))
    p2 = draw(st.integers(2, 7))
    return {"pair": pair, "n": n, "p": [p1, p2], "seed": draw(st.integers(0, 2**31 - 1)), "kfrac": draw(st.floats(0, 1)),
            "standardize": draw(st.integers(0, 2)) == 0, "alpha": [draw(st.sampled_from([0.0, 0.3, 0.5, 0.8, 1.0])) for _ in range(2)],
            "pca": draw(st.sampled_from(["off", "all", "int", "frac"])), "pca_k": draw(st.floats(0, 1)),
            "frac": draw(st.sampled_from([0.7, 0.9, 0.99, 0.999])), "irr": draw(st.sampled_from([1.0, 1.0, 0.5, 0.3])),
            "cplx": draw(st.booleans()),
            "solver": draw(st.sampled_from(["full", "full", "auto"])), "center": draw(st.integers(0, 3)) > 0,
            "nlatent": draw(st.integers(1, 3)), "noise": draw(st.sampled_from([0.2, 1.0]))}


def data(desc):
    rng = np.random.default_rng(desc["seed"])
    n = desc["n"]
    L = rng.standard_normal((n, desc["nlatent"]))
    out = []
    for i, p in enumerate(desc["p"]):
        Z = L @ rng.standard_normal((desc["nlatent"], p)) + desc["noise"] * rng.standard_normal((n, p)) * (1 + 0.4 * np.arange(p))
        Z = Z + rng.standard_normal(p) * 2
        dim = "xy"[i]
        out.append(xr.DataArray(Z, dims=("time", dim), coords={"time": np.arange(n), dim: np.arange(p) * (i + 1)}))
    return out


def aligned(A, B):
    """Per-column sign (phase for complex) aligning B to A."""
    ip = np.sum(A.conj() * B, axis=0)
    ph = np.where(np.abs(ip) > 0, ip / np.where(np.abs(ip) > 0, np.abs(ip), 1), 1)
    return B * ph.conj()


def separated(s):
    s = np.asarray(s, dtype=float)
    ok = np.ones(len(s), dtype=bool)
    for i in range(len(s)):
        nb = [s[j] for j in (i - 1, i + 1) if 0 <= j < len(s)]
        if any(abs(s[i] - x) <= 1e-3 * s[0] for x in nb) or s[i] <= 1e-6 * s[0]:
            ok[i] = False
    return ok


def compare(ctx, disc, name, sv_a, sv_b, comps_a, comps_b, scores_a, scores_b, tol, extra_s=None):
    sv_a, sv_b = np.asarray(sv_a, dtype=float), np.asarray(sv_b, dtype=float)
    if not ctx.check(sv_a.shape == sv_b.shape, name + "_n_modes", f"{sv_a.shape} vs {sv_b.shape}", **disc):
        return
    e = relerr(sv_a, sv_b, scale=max(sv_a[0], 1e-300))
    ctx.check(e <= tol, name + "_singular_values", f"rel err {e:.3g}: {sv_a[:4]} vs {sv_b[:4]}", **disc)
    full = np.asarray(sv_b if extra_s is None else extra_s, dtype=float)
    ok = separated(full)[: sv_a.shape[0]]  # `full` may hold more modes than compared: the neighbour beyond the last one counts
    if ok.sum() and len(ok) == sv_a.shape[0]:
        for what, pa, pb in (("components", comps_a, comps_b), ("scores", scores_a, scores_b)):
            for A, B in zip(pa, pb):
                A, B = np.asarray(A)[:, ok], np.asarray(B)[:, ok]
                if A.shape != B.shape:
                    ctx.violation(name + "_" + what, f"shape {A.shape} vs {B.shape}", **disc)
                    continue
                e = relerr(A, aligned(A, B), scale=float(np.abs(A).max()) or 1.0)
                ctx.check(e <= tol * 100, name + "_" + what, f"{what} differ after sign alignment (rel err {e:.3g})", **disc)


def full_spectrum(X, center, std):
    Z = X.values - X.values.mean(0) if center else X.values.copy()
    if std:
        Z = Z / X.values.std(0)
    return np.linalg.svd(Z, compute_uv=False)


def cross_parts(m):
    c1 = m.data["components1"].transpose(..., "mode").values
    c2 = m.data["components2"].transpose(..., "mode").values
    s1 = m.data["scores1"].transpose("sample", "mode").values
    s2 = m.data["scores2"].transpose("sample", "mode").values
    return m.data["singular_values"].values, [c1, c2], [s1, s2]


def pub_cross(m, dims):
    """Public (physical-space) components and scores."""
    c = m.components()
    s = m.scores()
    return [c[0].transpose(dims[0], "mode").values, c[1].transpose(dims[1], "mode").values], [s[0].transpose("time", "mode").values, s[1].transpose("time", "mode").values]


def run_case(desc, ctx):
    import xeofs as xe

    pair = desc["pair"]
    X, Y = data(desc)
    n = desc["n"]
    ctx.event(f"pair={pair}")
    disc = dict(pair=pair)
    std = desc["standardize"]
    common = dict(standardize=std, solver=desc["solver"], random_state=5)

    def pca_kw(ps):
        if desc["pca"] == "off":
            return dict(use_pca=False)
        if desc["pca"] == "all":
            return dict(use_pca=True, n_pca_modes="all")
        if desc["pca"] == "frac":
            return dict(use_pca=True, n_pca_modes=desc["frac"], pca_init_rank_reduction=desc["irr"])
        ks = [max(1, min(p, n - 2, 1 + int(desc["pca_k"] * (p - 1)))) for p in ps]
        return dict(use_pca=True, n_pca_modes=ks)

    def rank_for(ps, kw):
        if kw.get("use_pca") and isinstance(kw.get("n_pca_modes"), list):
            return min(kw["n_pca_modes"])
        if kw.get("use_pca") and isinstance(kw.get("n_pca_modes"), float):
            # the retained count is data dependent: read it off a probe fit of the general model
            probe = call(ctx, "fit_raises", lambda: xe.cross.CPCCA(n_modes=1, alpha=1.0, **kw, **common).fit(X, Y, "time"), disc=dict(disc, which="probe"))
            if isinstance(probe, Failed):
                raise Violation("C10", "fit_raises", "probe fit raised", dict(disc, which="probe"))
            return min(int(probe.pca1.V.sizes["mode"]), int(probe.pca2.V.sizes["mode"]))
        return min(min(ps), n - 1)

    def kpick(rank):
        return max(1, min(rank, 1 + int(desc["kfrac"] * (rank - 1))))

    if pair in ("MCA=CPCCA1", "CCA=CPCCA0", "RDA=CPCCA01"):
        name, alpha = {"MCA=CPCCA1": ("MCA", [1.0, 1.0]), "CCA=CPCCA0": ("CCA", [0.0, 0.0]), "RDA=CPCCA01": ("RDA", [0.0, 1.0])}[pair]
        kw = pca_kw(desc["p"])
        k = kpick(rank_for(desc["p"], kw))
        ctx.nontrivial(k >= 2)
        a = call(ctx, "fit_raises", lambda: getattr(xe.cross, name)(n_modes=k, **kw, **common).fit(X, Y, "time"), disc=disc)
        b = call(ctx, "fit_raises", lambda: xe.cross.CPCCA(n_modes=k, alpha=alpha, **kw, **common).fit(X, Y, "time"), disc=disc)
        if isinstance(a, Failed) or isinstance(b, Failed):
            return
        sa, ca, sca = cross_parts(a)
        sb, cb, scb = cross_parts(b)
        pa, psa = pub_cross(a, "xy")
        pb, psb = pub_cross(b, "xy")
        full = call(ctx, "fit_raises", lambda: xe.cross.CPCCA(n_modes=rank_for(desc["p"], kw), alpha=alpha, **kw, **common).fit(X, Y, "time").data["singular_values"].values, disc=dict(disc, which="all_modes"))
        if isinstance(full, Failed):
            return
        compare(ctx, disc, "named_vs_cpcca", sa, sb, ca + pa, cb + pb, sca + psa, scb + psb, 1e-9, extra_s=full)
        return

    if pair == "MCAxx=EOF":
        k = kpick(min(desc["p"][0], n - 1))
        ctx.nontrivial(k >= 2)
        a = call(ctx, "fit_raises", lambda: xe.cross.MCA(n_modes=k, use_pca=False, **common).fit(X, X.rename({"x": "x2"}) if False else X, "time"), disc=disc)
        b = call(ctx, "fit_raises", lambda: xe.single.EOF(n_modes=k, **common).fit(X, "time"), disc=disc)
        if isinstance(a, Failed) or isinstance(b, Failed):
            return
        sa, _, _ = cross_parts(a)
        pa, psa = pub_cross(a, "xx")
        ev = b.explained_variance().values
        cb = b.components().transpose("x", "mode").values
        Xc = X.values - X.values.mean(0)
        if std:
            Xc = Xc / X.values.std(0)
        compare(ctx, disc, "mca_self_vs_eof", sa, ev, pa, [cb, cb], [], [], 1e-9, extra_s=np.linalg.svd(Xc, compute_uv=False) ** 2)
        return

    if pair == "ComplexEOF=EOF":
        k = kpick(min(desc["p"][0], n - 1))
        if desc["solver"] != "full":
            k = min(k, max(1, min(desc["p"][0], n) - 1))
        ctx.nontrivial(k >= 2)
        kw = dict(n_modes=k, center=desc["center"], **common)
        a = call(ctx, "fit_raises", lambda: xe.single.ComplexEOF(**kw).fit(X, "time"), disc=disc, refuse=(ValueError,),
                 refuse_if=lambda e: "must be an integer satisfying" in str(e))
        b = call(ctx, "fit_raises", lambda: xe.single.EOF(**kw).fit(X, "time"), disc=disc)
        if isinstance(a, Failed) or isinstance(b, Failed):
            return
        compare(ctx, disc, "complex_vs_real_eof", a.singular_values().values, b.singular_values().values,
                [a.components().transpose("x", "mode").values], [b.components().transpose("x", "mode").values],
                [a.scores().transpose("time", "mode").values], [b.scores().transpose("time", "mode").values], 1e-7 if desc["solver"] != "full" else 1e-9,
                extra_s=full_spectrum(X, desc["center"], std))
        return

    if pair in ("ComplexCPCCA=CPCCA", "ComplexMCA=MCA"):
        kw = pca_kw(desc["p"])
        al = desc["alpha"]
        for i in range(2):
            pp = kw["n_pca_modes"][i] if isinstance(kw.get("n_pca_modes"), list) else desc["p"][i]
            if al[i] < 1 and pp > n - 2:
                ctx.refused("generator: whitening needs n-2 >= p'")
        k = kpick(rank_for(desc["p"], kw))
        ctx.nontrivial(k >= 2)
        if pair == "ComplexMCA=MCA":
            mk = lambda mod: getattr(xe.cross, mod)(n_modes=k, **kw, **common)  # noqa: E731
            a = call(ctx, "fit_raises", lambda: mk("ComplexMCA").fit(X, Y, "time"), disc=disc)
            b = call(ctx, "fit_raises", lambda: mk("MCA").fit(X, Y, "time"), disc=disc)
            tol = 1e-9
        else:
            mk = lambda mod: getattr(xe.cross, mod)(n_modes=k, alpha=al, **kw, **common)  # noqa: E731
            a = call(ctx, "fit_raises", lambda: mk("ComplexCPCCA").fit(X, Y, "time"), disc=disc)
            b = call(ctx, "fit_raises", lambda: mk("CPCCA").fit(X, Y, "time"), disc=disc)
            tol = 1e-7
        if isinstance(a, Failed) or isinstance(b, Failed):
            return
        sa, ca, sca = cross_parts(a)
        sb, cb, scb = cross_parts(b)
        pa, psa = pub_cross(a, "xy")
        pb, psb = pub_cross(b, "xy")
        fullm = (xe.cross.MCA(n_modes=rank_for(desc["p"], kw), **kw, **common) if pair == "ComplexMCA=MCA"
                 else xe.cross.CPCCA(n_modes=rank_for(desc["p"], kw), alpha=al, **kw, **common))
        full = call(ctx, "fit_raises", lambda: fullm.fit(X, Y, "time").data["singular_values"].values, disc=dict(disc, which="all_modes"))
        if isinstance(full, Failed):
            return
        compare(ctx, disc, "complex_vs_real_cross", sa, sb, ca + pa, cb + pb, sca + psa, scb + psb, tol, extra_s=full)
        return

    if pair == "EEOF1=EOF":
        k = kpick(min(desc["p"][0], n - 1))
        ctx.nontrivial(k >= 2)
        kw = dict(n_modes=k, center=desc["center"], **common)
        a = call(ctx, "fit_raises", lambda: xe.single.ExtendedEOF(tau=1 + desc["seed"] % 3, embedding=1, **kw).fit(X, "time"), disc=disc)
        # ExtendedEOF always centres the embedded matrix
        b = call(ctx, "fit_raises", lambda: xe.single.EOF(**dict(kw, center=True)).fit(X if desc["center"] else X, "time"), disc=disc)
        if isinstance(a, Failed) or isinstance(b, Failed):
            return
        ca = a.components()
        if "embedding" in ca.dims:
            ca = ca.isel(embedding=0)
        compare(ctx, disc, "eeof1_vs_eof", a.singular_values().values, b.singular_values().values,
                [ca.transpose("x", "mode").values], [b.components().transpose("x", "mode").values],
                [a.scores().transpose("time", "mode").values], [b.scores().transpose("time", "mode").values], 1e-9,
                extra_s=full_spectrum(X, True, std))
        ea, eb = a.explained_variance().values, b.explained_variance().values
        ctx.check(relerr(ea, eb) <= 1e-9, "eeof1_vs_eof_explained_variance", f"{ea} vs {eb}", **disc)
        return

    if pair == "SparsePCA0=EOF":
        k = kpick(min(desc["p"][0], n - 1))
        ctx.nontrivial(k >= 2)
        a = call(ctx, "fit_raises", lambda: xe.single.SparsePCA(n_modes=k, alpha=0.0, beta=0.0, solver="full", center=desc["center"], standardize=std,
                                                                 random_state=5).fit(X, "time"), disc=disc)
        b = call(ctx, "fit_raises", lambda: xe.single.EOF(n_modes=k, solver="full", center=desc["center"], standardize=std).fit(X, "time"), disc=disc)
        if isinstance(a, Failed) or isinstance(b, Failed):
            return
        compare(ctx, disc, "sparse0_vs_eof", a.explained_variance().values, b.explained_variance().values,
                [a.components().transpose("x", "mode").values], [b.components().transpose("x", "mode").values],
                [a.scores().transpose("time", "mode").values], [b.scores().transpose("time", "mode").values], 1e-8,
                extra_s=full_spectrum(X, desc["center"], std) ** 2)
        return

    if pair == "PCAall=noPCA":
        al = desc["alpha"]
        for i in range(2):
            if desc["p"][i] > n - 2:
                ctx.refused("generator: needs n-2 >= p")
        k = kpick(min(min(desc["p"]), n - 1))
        ctx.nontrivial(k >= 2)
        Cls = xe.cross.CPCCA
        if desc.get("cplx"):
            ctx.event("complex_data")
            rng = np.random.default_rng(desc["seed"] + 77)
            X = X + 1j * xr.DataArray(rng.standard_normal(X.shape), dims=X.dims, coords=X.coords)
            Y = Y + 1j * xr.DataArray(rng.standard_normal(Y.shape), dims=Y.dims, coords=Y.coords)
            Cls = xe.cross.ComplexCPCCA
        a = call(ctx, "fit_raises", lambda: Cls(n_modes=k, alpha=al, use_pca=True, n_pca_modes="all", **common).fit(X, Y, "time"), disc=disc)
        b = call(ctx, "fit_raises", lambda: Cls(n_modes=k, alpha=al, use_pca=False, **common).fit(X, Y, "time"), disc=disc)
        if isinstance(a, Failed) or isinstance(b, Failed):
            return
        pa, psa = pub_cross(a, "xy")
        pb, psb = pub_cross(b, "xy")
        cond = 1.0
        for Z, a_ in zip((X, Y), al):
            s = np.linalg.svd(Z.values - Z.values.mean(0), compute_uv=False)
            cond = max(cond, (s[0] / s[-1]) ** (1 - a_))
        full = call(ctx, "fit_raises", lambda: Cls(n_modes=min(min(desc["p"]), n - 1), alpha=al, use_pca=False, **common).fit(X, Y, "time").data["singular_values"].values, disc=dict(disc, which="all_modes"))
        if isinstance(full, Failed):
            return
        compare(ctx, disc, "pca_all_vs_no_pca", a.data["singular_values"].values, b.data["singular_values"].values, pa, pb, psa, psb, 1e-9 * cond, extra_s=full)
        return

    if pair == "multiCCA=CCA":
        for i in range(2):
            if desc["p"][i] > n - 2:
                ctx.refused("generator: needs n-2 >= p")
        k = kpick(min(min(desc["p"]), n - 1))
        k = max(2, k) if min(desc["p"]) >= 2 else k
        ctx.nontrivial(k >= 2)
        a = call(ctx, "fit_raises", lambda: xe.multi.CCA(n_modes=k, pca=False, eps=1e-12).fit([X, Y], "time"), disc=disc,
                 refuse=(ValueError,), refuse_if=lambda e: "n_modes" in str(e))
        b = call(ctx, "fit_raises", lambda: xe.cross.CCA(n_modes=k, use_pca=False, solver="full").fit(X, Y, "time"), disc=disc)
        if isinstance(a, Failed) or isinstance(b, Failed):
            return
        sa = [s.transpose("time", "mode").values for s in a.scores()]
        sb = [s.transpose("time", "mode").values for s in b.scores()]

        def cc(S):
            return np.array([abs(np.corrcoef(S[0][:, j], S[1][:, j])[0, 1]) for j in range(S[0].shape[1])])

        ca, cb = cc(sa), cc(sb)
        cond = 1.0
        for Z in (X, Y):
            s = np.linalg.svd(Z.values - Z.values.mean(0), compute_uv=False)
            cond = max(cond, s[0] / s[-1])
        e = relerr(ca, cb, scale=1.0)
        ctx.check(e <= 1e-7 * cond, "multi_vs_cross_cca_correlations", f"canonical correlations {ca} vs {cb}", **disc)
        return
    raise ValueError(pair)
