"""C15 — solver choice, variance thresholds and seeds behave as documented."""

from __future__ import annotations

import warnings

import numpy as np
import xarray as xr
from hypothesis import strategies as st

from vlib import gen
from vlib.util import Failed, call, relerr

ID = "C15"
RULE = (
    "Hypothesis draws a scenario in {threshold, solvers, seed, sign, kwargs}, a matrix with prescribed spectrum "
    "(geometric/flat/clustered/rank-deficient/random, exactly centred), back-end numpy/dask/complex, n_modes, fraction f "
    "(uniform, or within 1e-8..1e-4 of a cumulative value but never closer than 1e-9), init_rank_reduction in (0,1], integer "
    "seeds incl. 0, and for 'kwargs'/'seed' a model class exposing solver_kwargs/random_state. Non-trivial: truncation actually "
    "happens, or two solvers/runs are compared."
)
ASSUMPTIONS = [
    "fractions are never drawn within 1e-9 of a cumulative explained-variance value (round-off would decide)",
    "randomised vs exact: compared when s_{k+1}/s_k <= 0.2 (tol 1e-6 on singular values, 1e-4 on the projector)",
    "dask's SVD refusing a 2-D chunking (NotImplementedError) and scipy svds refusing k = min(shape) are refusals",
    "pass-through options are exercised with solver='randomized' (they are options of the randomised solvers)",
]
TIERS = {"quick": (8, 400), "thorough": (16, 3000)}

PARTS = ["threshold", "threshold", "solvers", "seed", "sign", "kwargs"]
KW_CLASSES = ["EOF", "ComplexEOF", "HilbertEOF", "ExtendedEOF", "OPA", "POP", "SparsePCA", "CPCCA", "MCA", "PCA", "SVD", "Decomposer"]
SEED_CLASSES = ["Decomposer", "SVD", "EOF", "ComplexEOF", "EOFRotator", "POP", "OPA", "ExtendedEOF", "SparsePCA", "CPCCA", "MCA", "CCA"]  # (bootstrap reproducibility "to solver accuracy" is C20)


# strata of the runner: scenario, and for the class-specific scenarios the class (the three class-free scenarios weigh 4 each)
CLASSES = [q for q in ("threshold", "solvers", "sign") for _ in range(4)] + [f"kwargs/{c}" for c in KW_CLASSES] + [f"seed/{c}" for c in SEED_CLASSES]


@st.composite
def strategy(draw, cls=None):
    part = draw(st.sampled_from(PARTS)) if cls is None else cls.split("/")[0]
    big = draw(st.integers(0, 29)) == 0
    p = draw(st.integers(2, 12))
    n = 520 if big else p + draw(st.integers(1, 14))
    d = {
        "part": part, "n": n, "p": p, "kind": draw(st.sampled_from(gen.SPECTRA)), "ratio": draw(st.sampled_from([0.5, 0.15, 0.9])),
        "backend": draw(st.sampled_from(["numpy", "numpy", "dask", "complex"])),
        "seed": draw(gen.seeds), "rs": draw(st.sampled_from([0, 0, 1, 7, 12345, 2**31 - 1])),
        "kfrac": draw(st.floats(0, 1)), "irr": draw(st.sampled_from([1.0, 1.0, 0.3, 0.5, 0.75, 0.05])),
        "fmode": draw(st.sampled_from(["uniform", "near_above", "near_below", "one"])),
        "f": draw(st.floats(0.01, 1.0)), "delta_exp": draw(st.sampled_from([-8, -6, -5, -4])), "fj": draw(st.floats(0, 1)),
        "target": draw(st.sampled_from(["Decomposer", "Decomposer", "_SVD", "PCA"])),
        "solver": draw(st.sampled_from(["full", "randomized", "auto"])),
        "scale_exp": draw(st.sampled_from([0, 0, -6, 5])),
    }
    if part == "kwargs":
        d["cls"] = draw(st.sampled_from(KW_CLASSES)) if cls is None else cls.split("/")[1]
    if part == "seed":
        d["cls"] = draw(st.sampled_from(SEED_CLASSES)) if cls is None else cls.split("/")[1]
    d["sparse"] = draw(st.booleans())  # 'solvers' scenario: also compare the exact and randomised sparse solvers
    d["pca_pre"] = draw(st.sampled_from([None, "few", "all"]))  # ExtendedEOF: PCA pre-reduction before the embedding (2 PCs / all PCs)
    return d


def make(desc, cplx=None):
    cplx = desc["backend"] == "complex" if cplx is None else cplx
    M, s = gen.matrix(desc["seed"], desc["n"], desc["p"], desc["kind"], desc["scale_exp"], cplx, desc["ratio"], center_exact=True)
    return M, s


def to_da(M, backend, names=("sample", "feature")):
    da = xr.DataArray(M, dims=names, coords={names[0]: np.arange(M.shape[0]), names[1]: np.arange(M.shape[1])})
    if backend == "dask":
        da = da.chunk({names[0]: -1, names[1]: -1})
    return da


def npy(x):
    return np.asarray(x.compute().values if hasattr(x, "compute") else x.values)


def expected_count(s, n, f, irr):
    """Smallest k among the precomputed modes whose cumulative ratio reaches f; (k, reached)."""
    rank = len(s) if len(s) else 1
    lam = s**2
    tot = lam.sum()
    pre = max(1, int(rank * irr))
    cum = np.cumsum(lam[:pre]) / tot
    hit = np.nonzero(cum >= f)[0]
    if hit.size:
        return int(hit[0]) + 1, True, pre, cum
    return pre, False, pre, cum


def run_threshold(desc, ctx):
    from xeofs.linalg._numpy._svd import _SVD
    from xeofs.linalg.decomposer import Decomposer
    from xeofs.preprocessing.pca import PCA

    backend = "numpy" if desc["backend"] == "dask" else desc["backend"]  # fractions are refused for dask (documented)
    M, s_all = make(desc, backend == "complex")
    n, p = M.shape
    rank = min(n, p)
    s_true = np.zeros(rank)
    s_true[: len(s_all)] = s_all
    irr = desc["irr"]
    _, _, pre, cum = expected_count(s_true, n, 2.0, irr)
    # choose f
    fm = desc["fmode"]
    if fm == "uniform":
        f = desc["f"]
    elif fm == "one":
        f = 1.0
    else:
        j = int(desc["fj"] * (len(cum) - 1))
        d = 10.0 ** desc["delta_exp"]
        f = cum[j] + d if fm == "near_above" else cum[j] - d
    f = float(min(1.0, max(1e-6, f)))
    full_cum = np.cumsum(s_true**2) / np.sum(s_true**2)
    k_exp, reached, pre, cum = expected_count(s_true, n, f, irr)
    one_ok = False
    if f == 1.0 and (pre < 2 or cum[pre - 2] < 1 - 1e-9) and (pre < len(full_cum) and full_cum[pre - 1] < 1 - 1e-9 or pre == len(full_cum)):
        # all precomputed modes are needed whatever round-off does to the last cumulative value; only the warning is unspecified
        one_ok, k_exp = True, pre
    elif np.any(np.abs(full_cum - f) < 1e-9):
        ctx.refused("generator: fraction within 1e-9 of a cumulative value")
    target = desc["target"]
    ctx.event(f"target={target}")
    ctx.event(f"fmode={fm}")
    ctx.event("reached" if reached else "not_reached")
    ctx.nontrivial(k_exp < pre or not reached)
    disc = dict(target=target, backend=backend, fmode=fm, reached=reached)
    solver = "full" if desc["solver"] == "auto" else desc["solver"]
    # with a randomised solver the trailing precomputed singular values must be accurate enough to count: use 'full'
    solver = "full"
    with warnings.catch_warnings(record=True) as rec:
        warnings.simplefilter("always")
        if target == "Decomposer":
            dec = Decomposer(n_modes=f, init_rank_reduction=irr, solver=solver, random_state=desc["rs"])
            r = call(ctx, "fit_raises", dec.fit, to_da(M, "numpy"), disc=disc, keep_warnings=True)
            got = None if isinstance(r, Failed) else int(dec.s_.sizes["mode"])
        elif target == "_SVD":
            svd = _SVD(n_modes=f, init_rank_reduction=irr, solver=solver, random_state=desc["rs"])
            r = call(ctx, "fit_raises", svd.fit_transform, M, disc=disc, keep_warnings=True)
            got = None if isinstance(r, Failed) else int(len(r[1]))
        else:
            pca = PCA(n_modes=f, init_rank_reduction=irr, random_state=desc["rs"], compute_eagerly=True, solver=solver)
            r = call(ctx, "fit_raises", pca.fit, to_da(M, "numpy"), disc=disc, keep_warnings=True)
            got = None if isinstance(r, Failed) else int(pca.V.sizes["mode"])
        warned = any("explained variance was requested" in str(w.message) or "requested" in str(w.message) for w in rec)
    if got is None:
        return
    ctx.check(got == k_exp, "threshold_mode_count",
              f"kept {got} modes, expected {k_exp} (f={f!r}, precomputed {pre}, cumulative {np.round(cum[:6], 9)})", **disc)
    if one_ok:
        pass
    elif not reached:
        ctx.check(warned, "threshold_warning", f"fraction {f} unreachable with {pre} precomputed modes but no warning was issued", **disc)
    elif fm != "one":
        ctx.check(not warned, "threshold_spurious_warning", "warning although the fraction was reached", **disc)


def decompose(desc, M, solver, rs, backend, k):
    from xeofs.linalg.decomposer import Decomposer

    dec = Decomposer(n_modes=k, solver=solver, random_state=rs)
    dec.fit(to_da(M, backend))
    return npy(dec.U_), npy(dec.s_), npy(dec.V_)


def pick_k(desc, rank):
    return max(1, min(rank, 1 + int(desc["kfrac"] * (rank - 1))))


def run_solvers(desc, ctx):
    backend = desc["backend"]
    M, s_all = make(desc)
    n, p = M.shape
    rank = min(n, p)
    k = pick_k(desc, rank)
    if n >= 500:
        k = min(k, 3)
    if backend == "complex":
        k = min(k, rank - 1) or 1
    disc = dict(backend=backend)
    ctx.event(f"backend={backend}")
    ctx.nontrivial(True)
    refuse = (NotImplementedError, ValueError)
    ri = lambda e: isinstance(e, NotImplementedError) or "must be an integer satisfying" in str(e)  # noqa: E731
    out = {}
    for solver in ("full", "randomized", "auto"):
        r = call(ctx, "fit_raises", decompose, desc, M, solver, desc["rs"], backend, k, refuse=refuse, refuse_if=ri, disc=dict(disc, solver=solver))
        if isinstance(r, Failed):
            return
        out[solver] = r
    s_true = np.zeros(rank)
    s_true[: len(s_all)] = s_all
    s1 = s_true[0]
    Uf, sf, Vf = out["full"]
    e = relerr(sf, s_true[:k], scale=s1)
    ctx.check(e <= 1e-9, "exact_singular_values", f"full solver: rel err {e:.3g}", **disc)
    ratio = (s_true[k] / s_true[k - 1]) if (k < rank and s_true[k - 1] > 0) else 0.0
    well_scaled = s_true[k - 1] / s1 >= 0.05
    if ratio <= 0.2 and well_scaled:
        ctx.event("gap")
        Ur, sr, Vr = out["randomized"]
        e = relerr(sr, sf, scale=s1)
        ctx.check(e <= 1e-6, "randomized_singular_values", f"randomized vs exact singular values rel err {e:.3g}", **disc)
        Pf, Pr = Vf @ Vf.conj().T, Vr @ Vr.conj().T
        e = float(np.abs(Pf - Pr).max())
        ctx.check(e <= 1e-4, "randomized_subspace", f"|P_exact - P_randomized| = {e:.3g} (s_k+1/s_k={ratio:.2g})", **disc)
    # auto selects one of the two: bit-identical to one of them (same seed)
    Ua, sa, Va = out["auto"]
    same_full = np.array_equal(sa, sf) and np.array_equal(Va, Vf)
    same_rand = np.array_equal(sa, out["randomized"][1]) and np.array_equal(Va, out["randomized"][2])
    ctx.check(same_full or same_rand, "auto_is_one_of_two", "solver='auto' result is bit-identical to neither 'full' nor 'randomized'", **disc)
    # documented policy: exact iff small data and n_modes > 80% of the rank (numpy/complex back-ends)
    if backend != "dask" and not (same_full and same_rand):
        want_full = max(n, p) < 500 and k > int(0.8 * rank)
        ctx.check(same_full == want_full, "auto_policy", f"auto picked {'full' if same_full else 'randomized'} for n={n},p={p},k={k}", **disc)

    # the sparse solver has its own exact / randomised variants: without penalties both are the PCA of the data, and the
    # randomised one is exact when its compressed matrix spans all features (k + 10 oversamples >= p)
    if backend == "numpy" and desc.get("sparse") and n < 500 and k + 10 >= p and s_true[k - 1] / s1 >= 1e-3:
        import xeofs as xe
        ctx.event("sparse_solvers")
        X = to_da(M.real, "numpy", names=("time", "x"))
        ev = {}
        for solver in ("full", "randomized"):
            m = call(ctx, "fit_raises", lambda: xe.single.SparsePCA(n_modes=k, alpha=0.0, beta=0.0, solver=solver, random_state=desc["rs"], center=False).fit(X, "time"),
                     disc=dict(disc, solver=solver, cls="SparsePCA"))
            if isinstance(m, Failed):
                return
            ev[solver] = np.asarray(m.explained_variance().values, dtype=float)
        e = relerr(ev["randomized"], ev["full"], scale=float(ev["full"].max()))
        ctx.check(e <= 1e-5, "sparse_randomized_explained_variance", f"SparsePCA explained variance, randomized {ev['randomized']} vs full {ev['full']}", **disc)


def run_sign(desc, ctx):
    from xeofs.linalg._numpy._svd import _SVD

    backend = "numpy" if desc["backend"] == "complex" else desc["backend"]
    M, s_all = make(desc, False)
    rank = min(M.shape)
    k = pick_k(desc, rank)
    if M.shape[0] >= 500:
        k = min(k, 3)
    disc = dict(backend=backend, solver=desc["solver"])
    ctx.event(f"backend={backend}")
    ctx.nontrivial(True)
    r = call(ctx, "fit_raises", decompose, desc, M, desc["solver"], desc["rs"], backend, k, refuse=(NotImplementedError,), disc=disc)
    if isinstance(r, Failed):
        return
    U, s, V = r
    for j in range(V.shape[1]):
        col = V[:, j]
        if s[j] <= 1e-9 * s[0]:
            continue
        i = int(np.argmax(np.abs(col)))
        a = np.sort(np.abs(col))[::-1]
        if len(a) > 1 and a[0] - a[1] < 1e-9 * a[0]:
            continue  # tie: either sign is legitimate
        ctx.check(col[i] > 0, "sign_convention", f"mode {j + 1}: largest-magnitude loading {col[i]:.3g} is negative", **dict(disc, target="Decomposer"))
    if backend == "numpy":
        svd = _SVD(n_modes=k, solver=desc["solver"], random_state=desc["rs"])
        r2 = call(ctx, "fit_raises", svd.fit_transform, M, disc=dict(disc, target="_SVD"))
        if not isinstance(r2, Failed):
            _, s2, V2 = r2
            for j in range(V2.shape[1]):
                col = V2[:, j]
                if s2[j] <= 1e-9 * s2[0]:
                    continue
                a = np.sort(np.abs(col))[::-1]
                if len(a) > 1 and a[0] - a[1] < 1e-9 * a[0]:
                    continue
                ctx.check(col[int(np.argmax(np.abs(col)))] > 0, "sign_convention", f"_SVD mode {j + 1} largest loading negative", **dict(disc, target="_SVD"))


def model_outputs(cls, desc, M, rs, solver_kwargs=None, solver="randomized"):
    """Fit `cls` and return a list of result arrays (for bit-identity / acceptance checks)."""
    import xeofs as xe
    from xeofs.linalg.decomposer import Decomposer
    from xeofs.linalg.svd import SVD
    from xeofs.preprocessing.pca import PCA

    kw = {} if solver_kwargs is None else {"solver_kwargs": solver_kwargs}
    n, p = M.shape
    X = to_da(M.real if cls not in ("ComplexEOF",) else M, "numpy", ("time", "x"))
    k = max(1, min(2, min(n, p) - 1))
    if cls == "Decomposer":
        d = Decomposer(n_modes=k, solver=solver, random_state=rs, **kw)
        d.fit(to_da(M, "numpy"))
        return [npy(d.U_), npy(d.s_), npy(d.V_)]
    if cls == "SVD":
        U, s, V = SVD(n_modes=k, solver=solver, random_state=rs, **kw).fit_transform(to_da(M, "numpy"))
        return [npy(U), npy(s), npy(V)]
    if cls == "PCA":
        pca = PCA(n_modes=k, random_state=rs, compute_eagerly=True, **kw).fit(to_da(M, "numpy"))
        return [npy(pca.V)]
    if cls in ("EOF", "ComplexEOF", "HilbertEOF"):
        m = getattr(xe.single, cls)(n_modes=k, solver=solver, random_state=rs, **kw).fit(X, "time")
        return [npy(m.data["components"]), npy(m.data["scores"]), npy(m.data["norms"])]
    if cls == "EOFRotator":
        m = xe.single.EOF(n_modes=max(2, k), solver=solver, random_state=rs, **kw).fit(X, "time")
        r = xe.single.EOFRotator(n_modes=max(2, k)).fit(m)
        return [npy(r.data["components"]), npy(r.data["scores"])]
    if cls == "ExtendedEOF":
        m = xe.single.ExtendedEOF(n_modes=k, tau=1, embedding=2, n_pca_modes=({"few": 2, "all": min(n, p)}[desc["pca_pre"]] if desc.get("pca_pre") and min(n, p) >= 3 else None), solver=solver,
                                  random_state=rs, **kw).fit(X, "time")
        return [npy(m.data["components"]), npy(m.data["scores"])]
    if cls == "OPA":
        m = xe.single.OPA(n_modes=1, tau_max=2, n_pca_modes=max(2, k), solver=solver, random_state=rs, **kw).fit(X, "time")
        return [npy(m.data["components"]), npy(m.data["scores"]), npy(m.data["decorrelation_time"])]
    if cls == "POP":
        m = xe.single.POP(n_modes=2, n_pca_modes=max(2, k), solver=solver, random_state=rs, **kw).fit(X, "time")
        return [npy(m.data["components"]), npy(m.data["scores"]), npy(m.data["eigenvalues"])]
    if cls == "SparsePCA":
        m = xe.single.SparsePCA(n_modes=k, solver=solver, random_state=rs, max_iter=50, **kw).fit(X, "time")
        return [npy(m.data["components"]), npy(m.data["scores"])]
    if cls in ("CPCCA", "MCA", "CCA"):
        Y = to_da(np.random.default_rng(desc["seed"] + 3).standard_normal((n, max(2, p // 2))), "numpy", ("time", "y"))
        extra = {"alpha": 0.5} if cls == "CPCCA" else {}
        m = getattr(xe.cross, cls)(n_modes=1, use_pca=True, n_pca_modes=max(1, min(2, min(n, p) // 3 or 1)), solver=solver, random_state=rs, **extra, **kw)
        m.fit(X, Y, "time")
        return [npy(m.data["components1"]), npy(m.data["components2"]), npy(m.data["scores1"]), npy(m.data["singular_values"])]
    if cls == "EOFBootstrapper":
        m = xe.single.EOF(n_modes=k, solver="full").fit(X, "time")
        b = xe.validation.EOFBootstrapper(n_bootstraps=3, seed=rs)
        b.fit(m)
        return [npy(b.data["components"]), npy(b.data["explained_variance"])]
    raise ValueError(cls)


NEED_FULL_RANK = ("OPA", "POP", "CPCCA", "MCA", "CCA", "EOFRotator")  # (rotating numerically null modes is ill-defined)


def run_seed(desc, ctx):
    cls = desc["cls"]
    if cls in NEED_FULL_RANK:
        # these models need full-rank principal components, enough samples for the lagged covariances,
        # and (POP: PCA always uses the 'auto' policy) few modes relative to the rank so that the randomised solver runs
        desc = dict(desc, kind="random", n=max(desc["n"], 12), p=max(desc["p"], 4))
    M, _ = make(desc, cls == "ComplexEOF")
    if M.shape[0] >= 500:
        M = M[:60]
    ctx.event(f"cls={cls}")
    ctx.event(f"rs={desc['rs']}")
    ctx.nontrivial(True)
    disc = dict(cls=cls, rs0=desc["rs"] == 0)
    refuse = (ValueError, RuntimeError)
    ri = lambda e: "must be an integer satisfying" in str(e) or "did not converge" in str(e)  # noqa: E731
    a = call(ctx, "fit_raises", model_outputs, cls, desc, M, desc["rs"], disc=disc, refuse=refuse, refuse_if=ri)
    if isinstance(a, Failed):
        return
    b = call(ctx, "fit_raises", model_outputs, cls, desc, M.copy(), desc["rs"], disc=disc)
    if isinstance(b, Failed):
        return
    same = all(x.shape == y.shape and np.array_equal(x, y, equal_nan=True) for x, y in zip(a, b))
    worst = max((relerr(x, y) for x, y in zip(a, b) if x.shape == y.shape), default=0)
    ctx.check(same, "seed_bit_identical", f"two fits with random_state={desc['rs']} differ (max rel diff {worst:.3g})", **disc)


def run_kwargs(desc, ctx):
    cls = desc["cls"]
    if cls in NEED_FULL_RANK:
        # these models need full-rank principal components, enough samples for the lagged covariances,
        # and (POP: PCA always uses the 'auto' policy) few modes relative to the rank so that the randomised solver runs
        desc = dict(desc, kind="random", n=max(desc["n"], 12), p=max(desc["p"], 4))
    M, _ = make(desc, cls == "ComplexEOF")
    if M.shape[0] >= 500:
        M = M[:60]
    ctx.event(f"cls={cls}")
    ctx.nontrivial(True)
    disc = dict(cls=cls)
    if cls == "ComplexEOF":
        opts = {"maxiter": 50}  # scipy.sparse.linalg.svds option
    elif cls == "HilbertEOF":
        opts = {"maxiter": 50}
    else:
        opts = {"n_oversamples": 12, "n_iter": 5, "power_iteration_normalizer": "QR"}
    ref = call(ctx, "fit_raises", model_outputs, cls, desc, M, desc["rs"], None, disc=disc, refuse=(ValueError,),
               refuse_if=lambda e: "must be an integer satisfying" in str(e))
    if isinstance(ref, Failed):
        return
    out = call(ctx, "solver_kwargs_rejected", model_outputs, cls, desc, M, desc["rs"], opts, disc=disc)
    if isinstance(out, Failed):
        return
    # the options only tune the randomised solver: results stay within its accuracy when the spectrum has a gap
    if cls in ("Decomposer", "SVD", "EOF") and desc["kind"] == "geometric" and desc["ratio"] <= 0.5:
        e = relerr(out[1] if cls != "EOF" else out[2], ref[1] if cls != "EOF" else ref[2])
        ctx.check(e <= 1e-6, "solver_kwargs_change_result", f"singular values moved by {e:.3g} under tuning options", **disc)


def run_case(desc, ctx):
    ctx.event(f"part={desc['part']}")
    {"threshold": run_threshold, "solvers": run_solvers, "seed": run_seed, "sign": run_sign, "kwargs": run_kwargs}[desc["part"]](desc, ctx)
