"""C19 — OPA returns uncorrelated series ordered by their own decorrelation time."""

from __future__ import annotations

import numpy as np
import xarray as xr
from hypothesis import strategies as st

from vlib.util import Failed, call, relerr

ID = "C19"
RULE = (
    "Hypothesis draws a multivariate time series (white noise, or a random mixture of AR(1) processes with persistence "
    "parameters spread over (-0.5, 0.98)), n in 12..70, tau_max in 1..n/3, n_pca_modes in 2..rank, n_modes in 1..n_pca_modes, "
    "center/standardize flags and a scale 1e-5..1e4. Non-trivial: n_modes >= 2."
)
ASSUMPTIONS = [
    "lagged covariance estimator as documented by OPA._Ctau: C(tau) = sum_t p_t p_{t+tau} / (N - tau - 1); decorrelation time = "
    "1/2 rho(0) + rho(1) + ... + 1/2 rho(tau_max) with rho = C(tau)/C(0)",
    "optimality is probed with 60 random and 30 locally perturbed combinations of the reference principal components (U of an "
    "independent SVD); it is a search, not a proof",
    "cases whose smallest retained PC has relative variance < 1e-10 are discarded (whitening undefined)",
]
TIERS = {"quick": (4, 250), "thorough": (16, 2500)}


@st.composite
def strategy(draw):
    big = draw(st.integers(0, 4)) == 0  # many retained PCs: the regime where an 'auto' solver would turn to a randomised method
    p = draw(st.integers(12, 18)) if big else draw(st.integers(2, 6))
    n = draw(st.integers(40 if big else 12, 70))
    k = draw(st.integers(2, min(p, n - 2)))
    return {
        "n": n, "p": p, "k": k, "n_modes": draw(st.integers(1, k)), "tau_max": draw(st.integers(1, max(1, n // 3))),
        "kind": draw(st.sampled_from(["ar", "ar", "white"])), "seed": draw(st.integers(0, 2**31 - 1)),
        "center": draw(st.integers(0, 3)) > 0, "standardize": draw(st.integers(0, 2)) == 0,
        "scale_exp": draw(st.sampled_from([0, 0, -5, -2, 4])), "offset": draw(st.booleans()),
        "solver": draw(st.sampled_from(["full", "auto", "auto"])),  # ('auto' is the default of the class)
    }


def build(desc):
    rng = np.random.default_rng(desc["seed"])
    n, p = desc["n"], desc["p"]
    if desc["kind"] == "white":
        X = rng.standard_normal((n, p))
    else:
        phi = rng.uniform(-0.5, 0.98, p)
        Z = np.zeros((n + 20, p))
        for t in range(1, n + 20):
            Z[t] = phi * Z[t - 1] + rng.standard_normal(p)
        Q = rng.standard_normal((p, p))
        X = Z[20:] @ Q
    X = X * 10.0 ** desc["scale_exp"]
    if desc["offset"]:
        X = X + rng.standard_normal(p) * 10.0 ** desc["scale_exp"] * 5
    return X


def decorr_time(z, tau_max):
    """Trapezoidal sum of the lagged autocorrelation with the estimator OPA documents."""
    z = np.asarray(z, dtype=float)
    N = len(z)

    def C(tau):
        return float(np.sum(z[: N - tau] * z[tau:]) / (N - tau - 1))

    c0 = C(0)
    tot = 0.5
    for tau in range(1, tau_max + 1):
        w = 0.5 if tau == tau_max else 1.0
        tot += w * C(tau) / c0
    return tot


def run_case(desc, ctx):
    import xeofs as xe

    X = build(desc)
    n, p = X.shape
    k, nm, tmax = desc["k"], desc["n_modes"], desc["tau_max"]
    ctx.event(f"kind={desc['kind']}")
    ctx.event(f"tau_max_frac={'small' if tmax <= n // 8 else 'large'}")
    ctx.nontrivial(nm >= 2)
    disc = dict(kind=desc["kind"], center=desc["center"])
    # reference preprocessing + PCs (the internal PCA always centres)
    P = X - X.mean(0) if desc["center"] else X.copy()
    if desc["standardize"]:
        P = P / np.clip(X.std(0), np.finfo(np.float32).eps, None)
    Pc = P - P.mean(0)
    U, s, Vh = np.linalg.svd(Pc, full_matrices=False)
    if s[k - 1] <= 1e-5 * s[0]:
        ctx.refused("generator: retained PC with vanishing variance")
    if k < len(s) and (s[k - 1] - s[k]) <= 1e-6 * s[0]:
        ctx.refused("generator: no gap after the last retained PC")
    Z = U[:, :k]

    da = xr.DataArray(X, dims=("time", "x"), coords={"time": np.arange(n), "x": np.arange(p)})
    model = xe.single.OPA(n_modes=nm, tau_max=tmax, n_pca_modes=k, center=desc["center"], standardize=desc["standardize"],
                          solver=desc.get("solver", "full"), random_state=0)
    ctx.event(f"solver={desc.get('solver', 'full')}")
    if isinstance(call(ctx, "fit_raises", model.fit, da, "time", disc=disc), Failed):
        return
    S = model.scores().transpose("time", "mode").values
    W = model.components().transpose("x", "mode").values
    F = model.filter_patterns().transpose("x", "mode").values
    T = np.asarray(model.decorrelation_time().values, dtype=float)
    if not ctx.check(S.shape == (n, nm) and T.shape == (nm,), "n_modes", f"scores {S.shape}, times {T.shape}", **disc):
        return
    # (1) uncorrelated, equal norm
    G = S.T @ S
    c = G[0, 0]
    e = float(np.abs(G - c * np.eye(nm)).max()) / abs(c)
    ctx.check(e <= 1e-7, "scores_uncorrelated_equal_norm", f"|S^T S - c I|/c = {e:.3g}", **disc)
    mean_rel = float(np.abs(S.mean(0)).max() / np.sqrt(c / n))
    ctx.check(mean_rel <= 1e-7, "scores_zero_mean", f"score series have mean {mean_rel:.3g} (relative to their std): 'uncorrelated' needs centred series", **disc)
    # (2) bi-orthogonality
    B = F.T @ W
    off = B - np.diag(np.diag(B))
    e = float(np.abs(off).max()) / float(np.abs(np.diag(B)).max())
    ctx.check(e <= 1e-7, "filter_patterns_biorthogonal", f"off-diagonal of F^T W = {e:.3g}", **disc)
    # (3) reported decorrelation time is that of the returned series
    own = np.array([decorr_time(S[:, i], tmax) for i in range(nm)])
    e = float(np.abs(own - T).max()) / max(1.0, float(np.abs(own).max()))
    ctx.check(e <= 1e-7, "decorrelation_time_of_own_series", f"reported {T} vs own {own}", **disc)
    # (4) descending
    ctx.check(np.all(np.diff(T) <= 1e-9 * max(1.0, np.abs(T).max())), "decorrelation_times_descending", f"{T}", **disc)
    # (5) optimality of the first mode among combinations of the retained PCs
    if desc.get("solver", "full") != "full" and k + 10 < min(n, p):
        # the PCA step may then use a randomised solver whose PCs only approximate the reference ones used below
        ctx.event("reference_pc_checks_skipped_randomised_pca")
        return
    rng = np.random.default_rng(desc["seed"] + 11)
    best = -np.inf
    a1, *_ = np.linalg.lstsq(Z, S[:, 0], rcond=None)
    resid = np.linalg.norm(Z @ a1 - S[:, 0]) / np.linalg.norm(S[:, 0])
    ctx.check(resid <= 1e-7, "scores_in_pc_span", f"first series is not a combination of the retained PCs (residual {resid:.3g})", **disc)
    Zs = Z / (s[:k] / s[0])  # any invertible rescaling spans the same combinations; use whitened and raw coordinates
    for i in range(60):
        a = rng.standard_normal(k)
        best = max(best, decorr_time((Z if i % 2 else Zs) @ a, tmax))
    for i in range(30):
        a = a1 + 10.0 ** rng.uniform(-6, -1) * np.linalg.norm(a1) * rng.standard_normal(k)
        best = max(best, decorr_time(Z @ a, tmax))
    ctx.check(best <= own[0] + 1e-8 * max(1.0, abs(own[0])), "first_mode_optimal", f"a combination of the retained PCs reaches {best:.9g} > T_1 = {own[0]:.9g}", **disc)
