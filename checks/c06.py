"""C06 — fully missing features/samples are ignored exactly; isolated NaNs are refused."""

from __future__ import annotations

import numpy as np
import xarray as xr
from hypothesis import strategies as st

from vlib import layouts as L
from vlib import oracle
from vlib.tab import Table, table_from_obj
from vlib.util import Failed, call, must_raise, relerr

ID = "C06"
RULE = (
    "Hypothesis draws a layout (container x dims x index kinds), a model (EOF, EOFRotator, MCA, CPCCA, CPCCARotator) and a NaN mask: "
    "whole labels of feature dims and/or sample dims missing (boundary/interior, per variable/item), arbitrary single grid cells missing "
    "throughout (EOF, numpy reference), cross-set samples missing in X, in Y, at the same or at different positions; plus isolated-NaN "
    "masks and transform data whose missing features are a superset / subset / equal to the training's. "
    "Non-trivial: at least one feature or sample deleted (isolated-NaN cases counted as non-trivial too)."
)
ASSUMPTIONS = [
    "deletion oracle: the same model class fitted by xeofs on the data with the missing labels removed with isel (slice masks), or a "
    "numpy reference (preprocess without the missing columns, svd) for arbitrary cell masks with EOF",
    "'refused' means any exception; equality at remaining labels uses rtol 1e-7; modes compared when separated and free of sign ties",
    "cross-set fields with different missing samples: result must equal deletion of the union from both fields, or an exception",
]
TIERS = {"quick": (8, 50), "thorough": (16, 500)}
CASE_TIMEOUT = 300

MODELS = ["EOF", "EOF", "EOFRotator", "MCA", "CPCCA", "CPCCARotator"]
SCEN = ["slices", "slices", "cells", "isolated_fit", "isolated_transform", "transform_mismatch", "cross_samples"]


@st.composite
def strategy(draw):
    scen = draw(st.sampled_from(SCEN))
    model = draw(st.sampled_from(MODELS))
    if scen == "cells":
        model = "EOF"
    if scen == "cross_samples" and model in ("EOF", "EOFRotator"):
        model = "MCA"
    lay = draw(L.layout(max_sd=2, max_fd=2, max_size=4, min_samples=10, min_features=5, max_items=2, max_vars=2))
    d = {"scen": scen, "model": model, "lay": lay, "seed": draw(st.integers(0, 2**31 - 1)), "mseed": draw(st.integers(0, 10_000)),
         "del_features": draw(st.booleans()), "del_samples": draw(st.booleans()), "alpha": draw(st.sampled_from([1.0, 0.5, 0.0])),
         "center": draw(st.integers(0, 3)) > 0, "standardize": draw(st.integers(0, 3)) == 0,
         "xy_mode": draw(st.sampled_from(["same", "x_only", "y_only", "different"])),
         "mismatch": draw(st.sampled_from(["more_missing", "fewer_missing", "other_missing"]))}
    if not d["del_features"] and not d["del_samples"]:
        d["del_features"] = True
    if model not in ("EOF", "EOFRotator"):
        lay2 = draw(L.layout(containers=("da",), max_sd=1, max_fd=1, max_size=4, min_samples=1, min_features=3))
        lay2["sdims"] = lay["sdims"]
        d["lay2"] = lay2
    return d


# ------------------------------------------------------------------------------------------------ masks
def pick_slices(obj, sdims, rng, del_features, del_samples, keep_samples=6):
    """Choose labels (positions) to blank: {('item', i, dim): [positions]} for feature dims, {dim: [positions]} for sample dims."""
    fsel, ssel = {}, {}
    items = obj if isinstance(obj, list) else [obj]
    if del_features:
        for i, it in enumerate(items):
            dims = [d for d in it.dims if d not in sdims]
            cand = [d for d in dims if it.sizes[d] >= 2]
            if not cand:
                continue
            d = cand[int(rng.integers(0, len(cand)))]
            n = it.sizes[d]
            k = int(rng.integers(1, max(2, n // 2 + 1)))
            k = min(k, n - 1)
            fsel[(i, d)] = sorted(rng.permutation(n)[:k].tolist())
    if del_samples:
        first = items[0]
        d = sdims[int(rng.integers(0, len(sdims)))]
        n = first.sizes[d]
        tot = int(np.prod([first.sizes[x] for x in sdims]))
        per = tot // n
        kmax = max(0, (tot - keep_samples) // per)
        if kmax >= 1:
            k = int(rng.integers(1, min(kmax, max(1, n // 2)) + 1))
            ssel[d] = sorted(rng.permutation(n)[:k].tolist())
    return fsel, ssel


def blank(obj, fsel, ssel):
    def one(o, i):
        if isinstance(o, xr.Dataset):
            # variable by variable: Dataset.where would broadcast variables lacking the masked dimension
            return xr.Dataset({v: one(o[v], i) for v in o.data_vars}, attrs=o.attrs)
        o = o.astype(float)
        for (j, d), pos in fsel.items():
            if j == i and d in o.dims:
                m = xr.DataArray(np.isin(np.arange(o.sizes[d]), pos), dims=[d])
                o = o.where(~m)
        for d, pos in ssel.items():
            if d in o.dims:
                m = xr.DataArray(np.isin(np.arange(o.sizes[d]), pos), dims=[d])
                o = o.where(~m)
        return o
    if isinstance(obj, list):
        return [one(o, i) for i, o in enumerate(obj)]
    return one(obj, 0)


def delete(obj, fsel, ssel):
    def one(o, i):
        for (j, d), pos in fsel.items():
            if j == i and d in o.dims:
                o = o.isel({d: [p for p in range(o.sizes[d]) if p not in pos]})
        for d, pos in ssel.items():
            o = o.isel({d: [p for p in range(o.sizes[d]) if p not in pos]})
        return o
    if isinstance(obj, list):
        return [one(o, i) for i, o in enumerate(obj)]
    return one(obj, 0)


# ------------------------------------------------------------------------------------------------ models
def build_model(desc, k):
    import xeofs as xe

    m = desc["model"]
    com = dict(standardize=desc["standardize"], solver="full", random_state=1)
    if m in ("EOF", "EOFRotator"):
        return xe.single.EOF(n_modes=k, center=desc["center"], **com)
    kw = dict(n_modes=k, use_pca=False, **com)
    if m != "MCA":
        kw["alpha"] = desc["alpha"]
    return (xe.cross.MCA if m == "MCA" else xe.cross.CPCCA)(**kw)


def fit(desc, X, Y, sdims, k):
    import xeofs as xe

    base = build_model(desc, k)
    if Y is None:
        base.fit(X, sdims)
    else:
        base.fit(X, Y, sdims)
    if desc["model"] == "EOFRotator":
        return base, xe.single.EOFRotator(n_modes=k, power=1).fit(base)
    if desc["model"] == "CPCCARotator":
        return base, xe.cross.CPCCARotator(n_modes=k, power=1).fit(base)
    return base, base


def outs(m, cross, sdims):
    if cross:
        sv = np.asarray(m.data["squared_covariance"].values, dtype=float) ** 0.5
        return sv, list(m.components()), list(m.scores())
    return np.asarray(m.data["norms"].values, dtype=float), [m.components()], [m.scores()]


def nan_positions_ok(ctx, sub, tab: Table, expect_nan_cols, expect_nan_rows, disc):
    """NaN exactly at the given column / row keys."""
    isn = np.isnan(tab.M) if not np.iscomplexobj(tab.M) else np.isnan(tab.M.real)
    for j, c in enumerate(tab.cols):
        for i, r in enumerate(tab.rows):
            want = (c in expect_nan_cols) or (r in expect_nan_rows)
            if bool(isn[i, j]) != want:
                ctx.violation(sub, f"{'missing' if want else 'spurious'} NaN at row {r} col {c}", **disc)
                return False
    return True


def run_case(desc, ctx):
    scen, model = desc["scen"], desc["model"]
    ctx.event(f"scen={scen}")
    ctx.event(f"model={model}")
    lay = desc["lay"]
    for ev in L.classes(lay)[:2]:
        ctx.event(ev)
    X, sdims = L.build(lay)
    Y = L.build(desc["lay2"])[0] if "lay2" in desc else None
    cross = Y is not None
    rng = np.random.default_rng(desc["mseed"])
    disc = dict(scen=scen, model=model)
    n = L.n_samples(lay)
    ctx.nontrivial(True)

    if scen in ("isolated_fit", "isolated_transform"):
        return run_isolated(desc, ctx, X, Y, sdims, rng, disc)
    if scen == "transform_mismatch":
        return run_mismatch(desc, ctx, X, Y, sdims, rng, disc)
    if scen == "cells":
        return run_cells(desc, ctx, X, sdims, rng, disc)

    fsel, ssel = pick_slices(X, sdims, rng, desc["del_features"], desc["del_samples"] and scen != "cross_samples")
    Xm, Xd = blank(X, fsel, ssel), delete(X, fsel, ssel)
    Ym = Yd = Y
    if cross:
        fy, _ = pick_slices(Y, sdims, rng, desc["del_features"] and scen != "cross_samples", False)
        Ym, Yd = blank(Y, fy, ssel), delete(Y, fy, ssel)
    if scen == "cross_samples":
        # samples missing in X, in Y, at the same or at different positions
        d0 = sdims[0]
        n0 = lay["sdims"][0]["size"]
        a, b = sorted(rng.permutation(n0)[:2].tolist())
        mode = desc["xy_mode"]
        ctx.event(f"xy={mode}")
        sx = {"same": [a], "x_only": [a], "y_only": [], "different": [a]}[mode]
        sy = {"same": [a], "x_only": [], "y_only": [b], "different": [b]}[mode]
        Xm, Ym = blank(Xm, {}, {d0: sx} if sx else {}), blank(Y, {}, {d0: sy} if sy else {})
        union = sorted(set(sx) | set(sy))
        Xd, Yd = delete(Xd, {}, {d0: union}), delete(Y, {}, {d0: union})
        ssel = {d0: union}
        disc["xy"] = mode
    # number of modes from the reduced data
    Td = table_from_obj(Xd, sdims)
    nr, pr = Td.M.shape
    rank = min(nr - 1, pr)
    if cross:
        rank = min(rank, table_from_obj(Yd, sdims).M.shape[1])
        if model != "MCA" and desc["alpha"] < 1 and max(pr, table_from_obj(Yd, sdims).M.shape[1]) > nr - 2:
            ctx.refused("generator: whitening needs n-2 >= p")
    k = max(1, min(3, rank))
    if model.endswith("Rotator"):
        k = max(2, k)
        if rank < 2:
            ctx.refused("generator: rank < 2")
    refuse = (RuntimeError,)
    ri = lambda e: "did not converge" in str(e)  # noqa: E731
    if scen == "cross_samples" and disc["xy"] != "same":
        # either refused, or equal to deletion of the union from both fields
        try:
            from vlib.util import quiet
            got = quiet(fit, desc, Xm, Ym, sdims, k)
        except Exception:
            ctx.event("cross_samples_refused")
            return
    else:
        got = call(ctx, "fit_raises", fit, desc, Xm, Ym, sdims, k, disc=dict(disc, which="masked"), refuse=refuse, refuse_if=ri)
        if isinstance(got, Failed):
            return
    ref = call(ctx, "fit_raises", fit, desc, Xd, Yd, sdims, k, disc=dict(disc, which="deleted"), refuse=refuse, refuse_if=ri)
    if isinstance(ref, Failed):
        return
    og = call(ctx, "accessor_raises", outs, got[1], cross, sdims, disc=dict(disc, which="masked"))
    orf = call(ctx, "accessor_raises", outs, ref[1], cross, sdims, disc=dict(disc, which="deleted"))
    if isinstance(og, Failed) or isinstance(orf, Failed):
        return
    sv_g, comps_g, scores_g = og
    sv_r, comps_r, scores_r = orf
    e = relerr(sv_g, sv_r)
    ctx.check(e <= 1e-7, "singular_values", f"masked fit != fit on reduced data (rel err {e:.3g})", **disc)
    s = sv_r
    sep = all(abs(s[i] - s[j]) > 1e-4 * s.max() for i in range(len(s)) for j in range(len(s)) if i != j) and np.all(s > 1e-6 * s.max())
    for f in range(len(comps_g)):
        Tg, Tr = table_from_obj(comps_g[f], ["mode"]), table_from_obj(comps_r[f], ["mode"])
        # NaN exactly at the deleted feature labels
        deleted = set(Tg.cols) - set(Tr.cols)
        nan_positions_ok(ctx, "components_nan_positions", Tg, deleted, set(), dict(disc, field=f))
        Sg, Sr = table_from_obj(scores_g[f], sdims), table_from_obj(scores_r[f], sdims)
        deleted_rows = set(Sg.rows) - set(Sr.rows)
        nan_positions_ok(ctx, "scores_nan_positions", Sg, set(), deleted_rows, dict(disc, field=f))
        if not sep:
            ctx.event("degenerate_modes_skipped")
            continue
        try:
            cg = Tg.at(Tr.rows, Tr.cols)
            sg = Sg.at(Sr.rows, Sr.cols)
        except KeyError as err:
            ctx.violation("labels_missing", f"field {f}: {err}", **disc)
            continue
        # sign ties -> align, else strict
        tie = any((lambda v: len(v) > 1 and v[0] - v[1] < 1e-6 * v[0])(np.sort(np.abs(row))[::-1]) for row in Tr.M)
        if tie or cross or model.endswith("Rotator"):
            sgn = np.sign(np.sum(cg * Tr.M, axis=1))
            sgn[sgn == 0] = 1
            cg = cg * sgn[:, None]
            order = [Sr.cols.index((0, None, frozenset({("mode", r[0])}))) for r in Tr.rows]
            sg = sg.copy()
            sg[:, order] = sg[:, order] * sgn[None, :]
        e = relerr(cg, Tr.M)
        ctx.check(e <= 1e-6, "components_on_remaining_labels", f"field {f}: rel err {e:.3g}", **dict(disc, field=f))
        e = relerr(sg, Sr.M)
        ctx.check(e <= 1e-6, "scores_on_remaining_labels", f"field {f}: rel err {e:.3g}", **dict(disc, field=f))
    # reconstruction: NaN at exactly the deleted labels, values equal elsewhere
    m_g, m_r = got[1], ref[1]
    if cross:
        rec_g = call(ctx, "inverse_transform_raises", lambda: list(m_g.inverse_transform(*m_g.scores())), disc=disc)
        rec_r = call(ctx, "inverse_transform_raises", lambda: list(m_r.inverse_transform(*m_r.scores())), disc=disc)
    else:
        rec_g = call(ctx, "inverse_transform_raises", lambda: [m_g.inverse_transform(m_g.scores())], disc=disc)
        rec_r = call(ctx, "inverse_transform_raises", lambda: [m_r.inverse_transform(m_r.scores())], disc=disc)
    if isinstance(rec_g, Failed) or isinstance(rec_r, Failed):
        return
    for f in range(len(rec_g)):
        Rg, Rr = table_from_obj(rec_g[f], sdims), table_from_obj(rec_r[f], sdims)
        nan_positions_ok(ctx, "reconstruction_nan_positions", Rg, set(Rg.cols) - set(Rr.cols), set(Rg.rows) - set(Rr.rows), dict(disc, field=f))
        try:
            e = relerr(Rg.at(Rr.rows, Rr.cols), Rr.M, scale=float(np.nanmax(np.abs(Rr.M))))
            ctx.check(e <= 1e-6, "reconstruction_on_remaining_labels", f"field {f}: rel err {e:.3g}", **dict(disc, field=f))
        except KeyError as err:
            ctx.violation("labels_missing", f"reconstruction field {f}: {err}", **disc)


def run_cells(desc, ctx, X, sdims, rng, disc):
    """Arbitrary grid cells missing throughout (EOF) against a numpy reference."""
    import xeofs as xe

    T = table_from_obj(X, sdims)
    n, p = T.M.shape
    kdel = int(rng.integers(1, max(2, p // 2)))
    cols = set(rng.permutation(p)[:kdel].tolist())
    dead = {T.cols[j] for j in cols}

    def blank_cells(o, i, var=None):
        return o

    items = X if isinstance(X, list) else [X]
    out = []
    for i, it in enumerate(items):
        def one(da, var):
            da = da.astype(float).copy()
            fd = [d for d in da.dims if d not in sdims]
            from vlib.tab import dim_labels
            labs = {d: dim_labels(da, d) for d in fd}
            for c in dead:
                if c[0] != i or c[1] != var:
                    continue
                sel = {d: labs[d].index(lab) for d, lab in c[2]}
                da[{d: v for d, v in sel.items()}] = np.nan
            return da
        if isinstance(it, xr.Dataset):
            out.append(xr.Dataset({v: one(it[v], str(v)) for v in it.data_vars}))
        else:
            out.append(one(it, None))
    Xm = out if isinstance(X, list) else out[0]
    Tm = table_from_obj(Xm, sdims)
    P = oracle.preprocess(Tm, desc["center"], desc["standardize"], False, None)
    rank = min(P.M.shape[0] - 1, P.M.shape[1])
    k = max(1, min(3, rank))
    model = xe.single.EOF(n_modes=k, center=desc["center"], standardize=desc["standardize"], solver="full")
    if isinstance(call(ctx, "fit_raises", model.fit, Xm, sdims, disc=disc), Failed):
        return
    U, s, Vh = np.linalg.svd(P.M, full_matrices=False)
    sv = np.asarray(model.singular_values().values, dtype=float)
    ctx.check(relerr(sv, s[:k]) <= 1e-8, "singular_values", f"masked fit != numpy reference on the remaining columns ({relerr(sv, s[:k]):.3g})", **disc)
    comps = call(ctx, "accessor_raises", model.components, disc=disc)
    scs = call(ctx, "accessor_raises", model.scores, disc=disc)
    if isinstance(comps, Failed) or isinstance(scs, Failed):
        return
    Ct = table_from_obj(comps, ["mode"])
    nan_positions_ok(ctx, "components_nan_positions", Ct, dead, set(), disc)
    sep = all(abs(s[i] - s[i + 1]) > 1e-4 * s[0] for i in range(min(k, len(s) - 1))) and s[k - 1] > 1e-6 * s[0]
    if sep:
        try:
            V = Ct.at([(m,) for m in range(1, k + 1)], P.cols)
            St = table_from_obj(scs, sdims)
            S = St.at(P.rows, [(0, None, frozenset({("mode", m)})) for m in range(1, k + 1)])
            e = relerr(S @ V, (U[:, :k] * s[:k]) @ Vh[:k], scale=s[0])
            ctx.check(e <= 1e-7, "rank_k_reconstruction_on_remaining_labels", f"rel err {e:.3g}", **disc)
        except KeyError as err:
            ctx.violation("labels_missing", str(err), **disc)


def run_isolated(desc, ctx, X, Y, sdims, rng, disc):
    """A NaN that is neither a fully missing feature nor a fully missing sample must be refused at fit and at transform."""
    staggered = desc["mseed"] % 3 == 0
    ctx.event("isolated=" + ("staggered" if staggered else "single"))

    def poke(o):
        o = o.astype(float).copy(deep=True)
        target = o if not isinstance(o, xr.Dataset) else o[list(o.data_vars)[0]]
        if staggered:
            # every sample misses exactly one cell, at a different feature each: no feature and no sample is missing throughout
            fd = [d for d in target.dims if d not in sdims]
            t = target.transpose(*sdims, *fd)
            shp = t.shape
            N = int(np.prod(shp[: len(sdims)]))
            P = int(np.prod(shp[len(sdims):]))
            if P >= 2 and N >= 2:
                arr = t.values.reshape(N, P).copy()
                for r in range(N):
                    arr[r, r % P] = np.nan
                target.values[...] = xr.DataArray(arr.reshape(shp), dims=t.dims).transpose(*target.dims).values
                return o
        idx = tuple(int(rng.integers(0, s)) for s in target.shape)
        target.values[idx] = np.nan
        return o
    items = X if isinstance(X, list) else [X]
    i = int(rng.integers(0, len(items)))
    bad_items = [poke(it) if j == i else it for j, it in enumerate(items)]
    Xbad = bad_items if isinstance(X, list) else bad_items[0]
    n = L.n_samples(desc["lay"])
    p = L.n_features(desc["lay"])
    k = 2 if min(n - 1, p) >= 2 else 1
    if desc["scen"] == "isolated_fit":
        must_raise(ctx, "isolated_nan_accepted_at_fit", fit, desc, Xbad, Y, sdims, k, disc=disc)
        return
    got = call(ctx, "fit_raises", fit, desc, X, Y, sdims, k, disc=disc, refuse=(RuntimeError, ValueError),
               refuse_if=lambda e: "did not converge" in str(e) or "rank" in str(e))
    if isinstance(got, Failed):
        return
    m = got[1]
    if Y is None:
        must_raise(ctx, "isolated_nan_accepted_at_transform", m.transform, Xbad, disc=disc)
    else:
        must_raise(ctx, "isolated_nan_accepted_at_transform", m.transform, X=Xbad, Y=Y, disc=disc)


def run_mismatch(desc, ctx, X, Y, sdims, rng, disc):
    """Transform data whose fully missing features differ from the training data's must be refused."""
    fsel, _ = pick_slices(X, sdims, rng, True, False)
    if not fsel:
        ctx.refused("generator: no feature dim with >= 2 labels")
    (i0, d0), pos = next(iter(fsel.items()))
    Xtrain = blank(X, {(i0, d0): pos}, {})
    items = X if isinstance(X, list) else [X]
    size = items[i0].sizes[d0]
    mode = desc["mismatch"]
    others = [q for q in range(size) if q not in pos]
    if mode == "more_missing":
        if len(others) < 2:
            ctx.refused("generator: nothing more to blank")
        pos2 = pos + [others[0]]
    elif mode == "fewer_missing":
        pos2 = pos[:-1]
    else:
        if len(others) < 2:
            ctx.refused("generator: nothing else to blank")
        pos2 = pos[:-1] + [others[0]]
    Xnew = blank(X, {(i0, d0): pos2} if pos2 else {}, {})
    ctx.event(f"mismatch={mode}")
    disc = dict(disc, mismatch=mode, center=bool(desc["center"]) if Y is None else True)
    Td = table_from_obj(delete(X, {(i0, d0): pos}, {}), sdims)
    k = max(2 if desc["model"].endswith("Rotator") else 1, min(2, min(Td.M.shape[0] - 1, Td.M.shape[1])))
    if Y is not None and desc["model"] != "MCA" and desc["alpha"] < 1 and max(Td.M.shape[1], L.n_features(desc["lay2"])) > Td.M.shape[0] - 2:
        ctx.refused("generator: whitening needs n-2 >= p")
    got = call(ctx, "fit_raises", fit, desc, Xtrain, Y, sdims, k, disc=disc, refuse=(RuntimeError, ValueError),
               refuse_if=lambda e: "did not converge" in str(e) or "rank" in str(e))
    if isinstance(got, Failed):
        return
    m = got[1]
    # control: the training data itself is accepted
    ctrl = call(ctx, "transform_of_training_data_raises", (lambda: m.transform(Xtrain)) if Y is None else (lambda: m.transform(X=Xtrain, Y=Y)), disc=disc)
    if isinstance(ctrl, Failed):
        return
    if Y is None:
        must_raise(ctx, "different_missing_features_accepted", m.transform, Xnew, disc=disc)
    else:
        must_raise(ctx, "different_missing_features_accepted", m.transform, X=Xnew, Y=Y, disc=disc)
