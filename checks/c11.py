"""C11 — rotation re-expresses the retained subspace without changing what it represents."""

from __future__ import annotations

import numpy as np
import xarray as xr
from hypothesis import strategies as st

from vlib import gen as G
from vlib import cases, layouts as L, models as M, oracle
from vlib.tab import items_of, table_from_obj
from vlib.util import Failed, call, relerr

ID = "C11"
RULE = (
    "Hypothesis draws a base model (EOF, ComplexEOF, HilbertEOF, CPCCA, MCA, Complex and Hilbert CPCCA/MCA with any alpha and PCA), "
    "a layout per field, n_modes of the rotator in 2..n_modes(model), power 1..4, flags and weights, optionally an earlier fit of the same objects. "
    "Non-trivial: the rotation matrix differs from the identity by more than 1e-6."
)
ASSUMPTIONS = [
    "the Varimax criterion is the Kaiser-normalised one the algorithm optimises (the raw criterion can legitimately drop)",
    "conservation of the summed explained variance is asserted for Varimax (power 1) only; Promax legitimately changes it",
    "RuntimeError('Rotation process did not converge') is a refusal",
    "rotators are generated with n_modes <= rank of the centred (analytic) data",
]
TIERS = {"quick": (8, 40), "thorough": (16, 350)}
CASE_TIMEOUT = 300

CLASSES = list(M.SINGLE_ROT) + ["HilbertEOFRotator"] + list(M.CROSS_ROT) + ["HilbertCPCCARotator", "HilbertMCARotator"]


@st.composite
def strategy(draw, cls=None):
    cls = cls or draw(st.sampled_from(CLASSES))  # (the runner stratifies: every shard runs its slice of CLASSES, one class at a time)
    d = draw(cases.model_case([cls], min_samples=8, powers=(1, 1, 2, 3, 4), max_sd=2, max_fd=2))
    d["names"] = ["sample", "feature"] if M.family(cls) == "cross" else d["names"]
    d["refit"] = draw(st.integers(0, 2)) == 0
    return d


def flat(objs, rows):
    """list of per-field DataObjects -> list of Tables with `rows` dims as rows."""
    return [table_from_obj(o, rows) for o in objs]


def run_case(desc, ctx):
    case = cases.build_case(desc)
    ad, data, sdims, w = case["adapter"], case["data"], case["sdims"], case["weights"]
    cls = desc["cls"]
    for ev in cases.case_events(desc):
        ctx.event(ev)
    sp = desc["spec"]
    power = sp["rot"]["power"]
    nrot = sp["rot"]["n_modes"]
    alpha = M.cross_alpha(sp) if ad.fam == "cross" else (1.0, 1.0)
    disc = dict(cls=cls, power=power, alpha_lt1=bool(min(alpha) < 1))
    if desc.get("refit"):
        # the same base model and rotator objects were fitted before on other data of the same layout
        ctx.event("refit")
        alt = cases.build_data(desc, seed_shift=23)
        pre = call(ctx, "fit_raises", ad.fit, alt, sdims, w, refuse=(RuntimeError,), refuse_if=lambda e: "did not converge" in str(e), disc=disc)
        if isinstance(pre, Failed):
            return
    fit = call(ctx, "fit_raises", ad.fit, data, sdims, w, refuse=(RuntimeError,), refuse_if=lambda e: "did not converge" in str(e), disc=disc)
    if isinstance(fit, Failed):
        return
    base, rot = ad.base, ad.rot
    R = np.asarray(rot.data["rotation_matrix"].transpose("mode_m", "mode_n").values)
    ctx.nontrivial(float(np.abs(np.abs(R) - np.eye(nrot)).max()) > 1e-6)
    cplx = M.is_complex_cls(cls) or M.is_hilbert_cls(cls)
    real_data = not M.is_complex_cls(cls)

    # ---- (1) reconstruction from rotated scores = reconstruction from the same number of unrotated modes
    rs = call(ctx, "scores_raises", ad.scores, disc=disc)
    if isinstance(rs, Failed):
        return
    if ad.fam == "single":
        bs = [base.scores().sel(mode=slice(1, nrot))]
        rec_b = call(ctx, "inverse_transform_raises", lambda: [base.inverse_transform(bs[0])], disc=dict(disc, which="base"))
    else:
        b1, b2 = base.scores()
        bs = [b1.sel(mode=slice(1, nrot)), b2.sel(mode=slice(1, nrot))]
        rec_b = call(ctx, "inverse_transform_raises", lambda: list(base.inverse_transform(X=bs[0], Y=bs[1])), disc=dict(disc, which="base"))
    rec_r = call(ctx, "inverse_transform_raises", ad.inverse_transform, rs, disc=dict(disc, which="rotator"))
    if not isinstance(rec_b, Failed) and not isinstance(rec_r, Failed):
        cond = 1.0
        for f in range(ad.n_fields):
            Tb = table_from_obj(rec_b[f], sdims)
            try:
                Tr = table_from_obj(rec_r[f], sdims)
                got = Tr.at(Tb.rows, Tb.cols)
            except (KeyError, ValueError) as e:
                ctx.violation("reconstruction_labels", f"field {f}: {type(e).__name__} {str(e)[:100]}", **disc)
                continue
            a = alpha[f]
            tol = 1e-8
            if a < 1 or power > 1:
                Tm = table_from_obj(data[f], sdims).M
                s_ = np.linalg.svd(Tm - Tm.mean(axis=0, keepdims=True), compute_uv=False)
                s_ = s_[s_ > 1e-10 * s_[0]]
                tol = 1e-8 * max(1.0, (s_[0] / s_[-1]) ** (1 - a)) * (np.linalg.cond(R) if power > 1 else 1.0)
            ref = np.real(Tb.M) if M.is_hilbert_cls(cls) else Tb.M
            got = np.real(got) if M.is_hilbert_cls(cls) else got
            e = relerr(got, ref, scale=float(np.nanmax(np.abs(table_from_obj(data[f], sdims).M))))
            ctx.check(e <= tol, "reconstruction_invariant", f"field {f}: reconstruction from rotated scores differs from the {nrot}-mode unrotated one (rel err {e:.3g}, tol {tol:.1g})",
                      **dict(disc, field=f))

    # ---- (2) descending order
    key = "explained_variance" if ad.fam == "single" else "squared_covariance"
    ev = np.asarray(rot.data[key].values, dtype=float)
    ctx.check(np.all(np.diff(ev) <= 1e-10 * max(ev.max(), 1e-300)), "rotated_modes_descending", f"{key} = {ev}", **disc)

    # ---- (3) sign convention (real data)
    cu = call(ctx, "components_raises", ad.components, False, disc=disc)
    if isinstance(cu, Failed):
        return
    Lrot = np.concatenate([table_from_obj(c, ["mode"]).M.T for c in cu], axis=0)  # (features, modes), loaded
    if real_data and not M.is_hilbert_cls(cls):
        for j in range(Lrot.shape[1]):
            col = Lrot[:, j]
            a_ = np.sort(np.abs(col))[::-1]
            if len(a_) > 1 and a_[0] - a_[1] < 1e-9 * a_[0]:
                continue
            ctx.check(col[int(np.argmax(np.abs(col)))] > 0, "sign_convention", f"mode {j + 1}: largest-magnitude loading is negative", **disc)

    # ---- (4) Varimax specifics
    if power == 1:
        e = float(np.abs(R.conj().T @ R - np.eye(nrot)).max())
        ctx.check(e <= 1e-9, "varimax_rotation_unitary", f"|R^H R - I| = {e:.3g}", **disc)
        # "stay orthonormal": only EOF-type scores are orthonormal before the rotation (the two score sets of a
        # cross-set model are not mutually orthogonal within a field), so only they can stay so
        sn = call(ctx, "scores_raises", ad.scores, True, disc=dict(disc, normalized=True)) if ad.fam == "single" else Failed(None)
        if not isinstance(sn, Failed):
            for f, s in enumerate(sn):
                S = table_from_obj(s, sdims).drop_nan().M
                G = S.conj().T @ S
                e = float(np.abs(G - np.eye(G.shape[0])).max())
                ctx.check(e <= 1e-8, "varimax_scores_orthonormal", f"field {f}: |S^H S - I| = {e:.3g}", **dict(disc, field=f))
        if ad.fam == "single":
            tot_b = float(base.explained_variance().sel(mode=slice(1, nrot)).sum())
            tot_r = float(ev.sum())
            ctx.check(abs(tot_b - tot_r) <= 1e-9 * max(tot_b, 1e-300), "varimax_variance_conserved", f"sum explained variance {tot_r!r} vs {tot_b!r}", **disc)
        if real_data and not M.is_hilbert_cls(cls):
            if ad.fam == "single":
                c0 = table_from_obj(base.components(), ["mode"]).M.T[:, :nrot]
                L0 = c0 * np.sqrt(np.asarray(base.explained_variance().values[:nrot], dtype=float))
                c1 = table_from_obj(rot.components(), ["mode"]).M.T
                L1 = c1 * np.sqrt(ev)
            else:
                cb = base.components()
                c0 = np.concatenate([table_from_obj(c, ["mode"]).M.T[:, :nrot] for c in cb], axis=0)
                L0 = c0 * np.sqrt(np.asarray(base.data["singular_values"].values[:nrot], dtype=float))
                L1 = Lrot
            L0 = np.where(np.isnan(L0), 0, L0)
            L1 = np.where(np.isnan(L1), 0, L1)
            v0, v1 = oracle.kaiser_varimax_criterion(L0), oracle.kaiser_varimax_criterion(L1)
            ctx.check(v1 >= v0 - 1e-8 * max(abs(v0), 1.0), "varimax_criterion_not_lower", f"Kaiser-normalised criterion {v1!r} after < {v0!r} before", **disc)
