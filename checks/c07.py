"""C07 — results do not depend on how the same data is laid out or named (metamorphic)."""

from __future__ import annotations

import numpy as np
import xarray as xr
from hypothesis import strategies as st

from vlib import layouts as L
from vlib.tab import Table, table_from_obj
from vlib.util import Failed, call, relerr

ID = "C07"
RULE = (
    "Hypothesis draws a base DataArray layout (1-2 sample dims, 1-2 feature dims, any index kinds), a model class (EOF, ComplexEOF, "
    "HilbertEOF, ExtendedEOF, SparsePCA, POP, OPA, EOFRotator, CPCCA, MCA, CPCCARotator, multi.CCA, EOFBootstrapper) and one "
    "transformation of the presentation: transpose, permutation of a feature dimension, permutation of a sample dimension, partition "
    "of a feature dimension into list items or Dataset variables, other sample_name/feature_name. Non-trivial: the permutation "
    "is not the identity / >= 2 parts / names differ from the defaults."
)
ASSUMPTIONS = [
    "exact solver in both fits; modes compared only when separated from their neighbours (relative gap 1e-4) and, for real data, "
    "when the largest |loading| is unique (no sign tie); complex/Hilbert modes are compared up to a unit phase per mode",
    "order-dependent methods (ExtendedEOF, OPA, POP, Hilbert variants) are exempt from sample permutation, as the property says; "
    "EOFBootstrapper too (its resampling is positional)",
    "multi.CCA exposes no sample_name/feature_name parameters and is not given the renaming transformation",
    "EOFBootstrapper members use the default (possibly randomised, unseeded) solver: compared to 5e-5 / 5e-3 instead of 1e-7 / 1e-5",
]
TIERS = {"quick": (8, 60), "thorough": (16, 500)}
CASE_TIMEOUT = 300

CLASSES = ["EOF", "EOF", "ComplexEOF", "HilbertEOF", "ExtendedEOF", "SparsePCA", "POP", "OPA", "EOFRotator", "CPCCA", "MCA",
           "CPCCARotator", "multi.CCA", "EOFBootstrapper"]
ORDER_DEPENDENT = {"HilbertEOF", "ExtendedEOF", "POP", "OPA", "EOFBootstrapper"}
TRANSFORMS = ["transpose", "feature_perm", "sample_perm", "partition_list", "partition_ds", "names", "partition_many"]


@st.composite
def strategy(draw, cls=None):
    cls = cls or draw(st.sampled_from(CLASSES))  # (the runner stratifies: every shard runs its slice of CLASSES, one class at a time)
    tr = draw(st.sampled_from(TRANSFORMS))
    if tr == "sample_perm" and cls in ORDER_DEPENDENT:
        tr = "feature_perm"
    if tr == "names" and cls == "multi.CCA":
        tr = "transpose"
    lay = draw(L.layout(containers=("da",), max_sd=2, max_fd=2, max_size=4, min_samples=12, min_features=4))
    if tr == "partition_ds" and len(lay["items"][0]["fpool"]) < 2:
        tr = "partition_list"
    if tr == "partition_many":
        # one feature dimension long enough to be cut into more than ten single-label list items
        lay["items"][0]["fpool"][0]["size"] = draw(st.integers(11, 13))
        for extra in lay["items"][0]["fpool"][1:]:
            extra["size"] = min(extra["size"], 2)
        lay["sdims"][0]["size"] = max(lay["sdims"][0]["size"], 16)
    d = {"cls": cls, "tr": tr, "lay": lay, "seed": draw(st.integers(0, 2**31 - 1)), "perm": draw(st.integers(0, 10_000)),
         "names": draw(st.sampled_from([["S", "F"], ["obs", "cell"], ["t", "space"]])),
         "alpha": draw(st.sampled_from([1.0, 0.5, 0.0])), "center": True, "standardize": draw(st.integers(0, 3)) == 0,
         "pca": draw(st.booleans())}  # (PCA pre-reduction keeping k modes for ExtendedEOF, all modes for the cross-set classes)
    if cls in ("CPCCA", "MCA", "CPCCARotator", "multi.CCA"):
        lay2 = draw(L.layout(containers=("da",), max_sd=1, max_fd=1, max_size=4, min_samples=1, min_features=3))
        lay2["sdims"] = lay["sdims"]
        d["lay2"] = lay2
    return d


def transform(desc, da, sdims):
    """-> (new object, function mapping a transformed column key to the original column key, sample permutation flag)"""
    tr = desc["tr"]
    rng = np.random.default_rng(desc["perm"])
    fdims = [d for d in da.dims if d not in sdims]
    ident = lambda k: k  # noqa: E731
    if tr == "transpose":
        order = list(rng.permutation(len(da.dims)))
        if order == list(range(len(da.dims))):
            order = order[::-1]
        return da.transpose(*[da.dims[i] for i in order]), ident, True
    if tr == "feature_perm":
        d = fdims[int(rng.integers(0, len(fdims)))]
        p = rng.permutation(da.sizes[d])
        return da.isel({d: p}), ident, not np.array_equal(p, np.arange(len(p)))
    if tr == "sample_perm":
        d = sdims[0]
        p = rng.permutation(da.sizes[d])
        return da.isel({d: p}), ident, not np.array_equal(p, np.arange(len(p)))
    if tr == "partition_list":
        d = max(fdims, key=lambda x: da.sizes[x])
        n = da.sizes[d]
        if n < 2:
            return da, ident, False
        cut = sorted(set(int(x) for x in rng.integers(1, n, size=2)))
        bounds = [0] + cut + [n]
        parts = [da.isel({d: slice(a, b)}) for a, b in zip(bounds[:-1], bounds[1:])]
        return parts, (lambda k: (0, None, k[2])), len(parts) >= 2
    if tr == "partition_many":
        d = fdims[0] if da.sizes[fdims[0]] >= 11 else max(fdims, key=lambda x: da.sizes[x])
        parts = [da.isel({d: slice(i, i + 1)}) for i in range(da.sizes[d])]
        return parts, (lambda k: (0, None, k[2])), True
    if tr == "partition_ds":
        d = fdims[0]
        from vlib.tab import dim_labels
        labs = dim_labels(da, d)
        ds = xr.Dataset({f"v{i}": da.isel({d: i}, drop=True).drop_vars([c for c in da.coords if c != d and d in da.coords[c].dims and c not in da.dims], errors="ignore")
                         for i in range(da.sizes[d])})
        lookup = {f"v{i}": labs[i] for i in range(da.sizes[d])}
        return ds, (lambda k: (0, None, k[2] | {(d, lookup[k[1]])})), da.sizes[d] >= 2
    if tr == "names":
        return da, ident, True
    raise ValueError(tr)


def fit_model(desc, X, Y, sdims, names):
    import xeofs as xe

    cls = desc["cls"]
    n_s, f_n = names
    std = desc["standardize"]
    k = desc["k"]
    com = dict(sample_name=n_s, feature_name=f_n, standardize=std, solver="full", random_state=2)
    if cls in ("EOF", "ComplexEOF", "HilbertEOF"):
        return getattr(xe.single, cls)(n_modes=k, **com).fit(X, sdims)
    if cls == "ExtendedEOF":
        return xe.single.ExtendedEOF(n_modes=k, tau=1, embedding=2, n_pca_modes=k if desc.get("pca") else None, **com).fit(X, sdims)
    if cls == "SparsePCA":
        return xe.single.SparsePCA(n_modes=k, alpha=1e-3, beta=1e-3, **com).fit(X, sdims)
    if cls == "POP":
        return xe.single.POP(n_modes=k, n_pca_modes=k, pca_init_rank_reduction=1.0, **com).fit(X, sdims)
    if cls == "OPA":
        return xe.single.OPA(n_modes=min(2, k), tau_max=2, n_pca_modes=k, **com).fit(X, sdims)
    if cls == "EOFRotator":
        m = xe.single.EOF(n_modes=k, **com).fit(X, sdims)
        return xe.single.EOFRotator(n_modes=k, power=1).fit(m)
    if cls == "EOFBootstrapper":
        m = xe.single.EOF(n_modes=k, **com).fit(X, sdims)
        b = xe.validation.EOFBootstrapper(n_bootstraps=3, seed=5)
        b.fit(m)
        return b
    if cls in ("CPCCA", "MCA", "CPCCARotator"):
        kw = dict(n_modes=k, use_pca=bool(desc.get("pca")), n_pca_modes="all", pca_init_rank_reduction=1.0, sample_name=n_s, feature_name=[f_n + "1", f_n + "2"], standardize=std, solver="full", random_state=2)
        if cls != "MCA":
            kw["alpha"] = desc["alpha"]
        m = (xe.cross.MCA if cls == "MCA" else xe.cross.CPCCA)(**kw).fit(X, Y, sdims)
        if cls == "CPCCARotator":
            return xe.cross.CPCCARotator(n_modes=k, power=1).fit(m)
        return m
    if cls == "multi.CCA":
        return xe.multi.CCA(n_modes=k, pca=False, eps=1e-12).fit([X, Y], sdims)
    raise ValueError(cls)


def results(desc, m, sdims):
    """-> dict: 'sv' (vector), 'comps' (list of Tables rows=mode), 'scores' (list of Tables rows=sample)"""
    cls = desc["cls"]
    if cls in ("CPCCA", "MCA", "CPCCARotator"):
        sv = np.asarray(m.data["squared_covariance"].values, dtype=float) ** 0.5
        return {"sv": sv, "comps": [table_from_obj(c, ["mode"]) for c in m.components()], "scores": [table_from_obj(s, sdims) for s in m.scores()]}
    if cls == "multi.CCA":
        sc = m.scores()
        flat = [s_.transpose(*sdims, "mode").values.reshape(-1, s_.sizes["mode"]) for s_ in sc]  # same sample order in both views
        cc = np.array([abs(np.corrcoef(flat[0][:, j], flat[1][:, j])[0, 1]) for j in range(sc[0].sizes["mode"])])
        return {"sv": cc, "comps": [table_from_obj(c, ["mode"]) for c in m.components()], "scores": [table_from_obj(s, sdims) for s in sc]}
    if cls == "EOFBootstrapper":
        ev = m.explained_variance().transpose("n", "mode").values
        comps = m.components()
        nb = ev.shape[0]
        # one table per bootstrap member
        return {"sv": ev.ravel(), "comps": [table_from_obj(L.map_items(comps, lambda c: c.isel(n=i, drop=True)), ["mode"]) for i in range(nb)],
                "scores": [table_from_obj(m.scores().isel(n=i, drop=True), sdims) for i in range(nb)], "sep_from": ev[0]}
    if cls == "OPA":
        sv = np.asarray(m.decorrelation_time().values, dtype=float)
    elif cls == "POP":
        sv = np.abs(np.asarray(m.eigenvalues().values))
    elif cls == "SparsePCA":
        sv = np.asarray(m.explained_variance().values, dtype=float)
    else:
        sv = np.asarray(m.data["norms"].values, dtype=float)
    return {"sv": sv, "comps": [table_from_obj(m.components(), ["mode"])], "scores": [table_from_obj(m.scores(), sdims)]}


def run_case(desc, ctx):
    cls, tr = desc["cls"], desc["tr"]
    ctx.event(f"cls={cls}")
    ctx.event(f"tr={tr}")
    if desc.get("pca") and cls in ("ExtendedEOF", "CPCCA", "MCA", "CPCCARotator"):
        ctx.event("pca_pre_reduction")
    lay = desc["lay"]
    da, sdims = L.build(lay)
    if cls == "ComplexEOF":
        rng = np.random.default_rng(desc["seed"])
        da = da + 1j * xr.DataArray(rng.standard_normal(da.shape), dims=da.dims, coords={d: da.coords[d] for d in da.dims})
    Y = L.build(desc["lay2"])[0] if "lay2" in desc else None
    n, p = L.n_samples(lay), L.n_features(lay)
    p2 = L.n_features(desc["lay2"]) if Y is not None else p
    cross = cls in ("CPCCA", "MCA", "CPCCARotator", "multi.CCA")
    if cross and desc["alpha"] < 1 and cls != "MCA" and max(p, p2) > n - 2:
        ctx.refused("generator: whitening needs n-2 >= p")
    if cls == "multi.CCA" and max(p, p2) > n - 2:
        ctx.refused("generator: CCA needs n-2 >= p")
    rank = min(n - 1, p, p2)
    if cls == "HilbertEOF":
        rank = min(rank, n // 2 - 1)
    k = max(2, min(3, rank))
    if cls == "POP":
        k = max(2, min(k, n - 3))
    if rank < 2:
        ctx.refused("generator: rank < 2")
    desc = dict(desc, k=k)
    disc = dict(cls=cls, tr=tr)
    cplx = cls in ("ComplexEOF", "HilbertEOF", "POP")

    new, mapcol, nontrivial = transform(desc, da, sdims)
    Yb = Y
    if tr == "sample_perm" and Y is not None:
        # the same permutation of the samples in every field (fields are paired sample by sample)
        p_ = np.random.default_rng(desc["perm"]).permutation(da.sizes[sdims[0]])
        Yb = Y.isel({sdims[0]: p_})
    ctx.nontrivial(nontrivial)
    names_b = desc["names"] if tr == "names" else ["sample", "feature"]
    for d_ in sdims + [x for x in da.dims]:
        if d_ in names_b:
            names_b = ["S_", "F_"]
    refuse = (RuntimeError,)
    ri = lambda e: "did not converge" in str(e)  # noqa: E731
    a = call(ctx, "fit_raises", fit_model, desc, da, Y, sdims, ["sample", "feature"] if "sample" not in da.dims and "feature" not in da.dims else ["S_", "F_"],
             disc=dict(disc, which="base"), refuse=refuse, refuse_if=ri)
    if isinstance(a, Failed):
        return
    b = call(ctx, "fit_raises", fit_model, desc, new, Yb, sdims, names_b, disc=dict(disc, which="transformed"), refuse=refuse, refuse_if=ri)
    if isinstance(b, Failed):
        return
    A = call(ctx, "results_raise", results, desc, a, sdims, disc=dict(disc, which="base"))
    B = call(ctx, "results_raise", results, desc, b, sdims, disc=dict(disc, which="transformed"))
    if isinstance(A, Failed) or isinstance(B, Failed):
        return
    tol = 1e-7
    if cls == "EOFBootstrapper":
        tol = 5e-5  # members are fitted with the unseeded default solver (randomised for few modes): solver accuracy only
    sva, svb = A["sv"], B["sv"]
    if not ctx.check(sva.shape == svb.shape, "n_modes", f"{sva.shape} vs {svb.shape}", **disc):
        return
    e = relerr(svb, sva, scale=float(np.abs(sva).max()) or 1.0)
    ctx.check(e <= tol, "singular_values", f"rel err {e:.3g}: {sva[:4]} vs {svb[:4]}", **disc)
    # separation
    s = np.asarray(A.get("sep_from", sva), dtype=float)
    if cls in ("POP",):
        ctx.event("components_not_compared_for_POP_pairs")  # conjugate pairs share |lambda|: compare eigenvalues only
        return
    sep = all(abs(s[i] - s[j]) > 1e-4 * np.abs(s).max() for i in range(len(s)) for j in range(len(s)) if i != j) and np.all(np.abs(s) > 1e-6 * np.abs(s).max())
    if not sep:
        ctx.event("degenerate_modes_skipped")
        return
    for what in ("comps", "scores"):
        for f, (ta, tb) in enumerate(zip(A[what], B[what])):
            if cross and f == 1 and what == "comps" and False:
                continue
            # map transformed keys to original keys (only the first field is transformed)
            if what == "comps" and f == 0 or (cls == "EOFBootstrapper" and what == "comps"):
                cols_b = [mapcol(c) for c in tb.cols]
                tbm = Table(tb.rows, cols_b, tb.M)
            else:
                tbm = tb
            try:
                got = tbm.at(ta.rows, ta.cols)
            except (KeyError, ValueError) as err:
                ctx.violation(what + "_labels", f"field {f}: {type(err).__name__} {str(err)[:120]}", **disc)
                continue
            ref = ta.M
            axis = 1 if what == "comps" else 0  # modes are rows of the component table, columns of the score table
            if cplx:
                ip = np.nansum(np.conj(ref) * got, axis=axis, keepdims=True)
                ph = ip / np.where(np.abs(ip) > 0, np.abs(ip), 1)
                got = got * np.conj(ph)
            else:
                # sign ties: either sign legitimate -> align; otherwise compare strictly
                M_ = ref if what == "comps" else None
                if M_ is not None:
                    tie = any((lambda v: len(v) > 1 and v[0] - v[1] < 1e-6 * v[0])(np.sort(np.abs(row[~np.isnan(row)]))[::-1]) for row in M_)
                    if tie or cls in ("SparsePCA", "OPA", "multi.CCA", "EOFBootstrapper"):
                        desc.setdefault("_align", True)
                if desc.get("_align") or cls in ("SparsePCA", "OPA", "multi.CCA", "EOFBootstrapper"):
                    ip = np.nansum(ref * got, axis=axis, keepdims=True)
                    got = got * np.where(ip < 0, -1.0, 1.0)
            e = relerr(np.nan_to_num(got), np.nan_to_num(ref), scale=float(np.nanmax(np.abs(ref))) or 1.0)
            ctx.check(e <= tol * 100, what, f"field {f}: {what} differ at labels (rel err {e:.3g})", **dict(disc, field=f))
