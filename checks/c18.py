"""C18 — POP modes are eigen-pairs of the lag-1 feedback matrix."""

from __future__ import annotations

import numpy as np
import xarray as xr
from hypothesis import strategies as st

from vlib.util import Failed, call, relerr

ID = "C18"
RULE = (
    "Hypothesis draws a multivariate time series: (a) a stable VAR(1) process with random feedback matrix and noise, or "
    "(b) a noise-free superposition of damped oscillators r*R(theta) (known eigenvalues) under a random orthogonal change of "
    "basis; n samples > retained PCs; n_pca_modes >= 2 or use_pca=False; center/standardize flags. "
    "Non-trivial: at least one complex conjugate pair among the eigenvalues."
)
ASSUMPTIONS = [
    "feedback matrix A = C1 C0^{-1} with C1 = X[1:]^H X[:-1], C0 = X[:-1]^H X[:-1] on the reference PCA-reduced data (the "
    "convention under which the stated oscillator recovery is exact), lifted to feature space with the reference PCA projector",
    "eigen-relation checked through residuals |A p - lambda p| <= 1e-7 |A| |p| with cond(C0) <= 1e8 by construction",
    "PCA subspace must be unique: cases without a relative gap 1e-4 after the last retained PC are discarded (counted)",
]
TIERS = {"quick": (4, 300), "thorough": (16, 2500)}


@st.composite
def strategy(draw):
    kind = draw(st.sampled_from(["var", "var", "osc"]))
    if kind == "osc":
        nblocks = draw(st.integers(1, 3))
        nreal = draw(st.integers(0, 2))
        blocks = [{"r": draw(st.floats(0.6, 0.999)), "theta": draw(st.floats(0.15, 3.0))} for _ in range(nblocks)]
        reals = [draw(st.floats(0.3, 0.98)) * draw(st.sampled_from([1, 1, -1])) for _ in range(nreal)]
        dim = 2 * nblocks + nreal
        p = dim + draw(st.integers(0, 3))
        n = draw(st.integers(dim + 4, dim + 40))
        return {"kind": kind, "blocks": blocks, "reals": reals, "p": p, "n": n, "seed": draw(st.integers(0, 2**31 - 1)),
                "center": False, "standardize": False, "use_pca": True, "k": dim}
    p = draw(st.integers(2, 7))
    k = draw(st.integers(2, p))
    n = draw(st.integers(k + 4, k + 40))
    return {"kind": kind, "p": p, "n": n, "k": k, "rho": draw(st.floats(0.3, 0.95)), "noise": draw(st.sampled_from([0.1, 1.0, 0.01])),
            "seed": draw(st.integers(0, 2**31 - 1)), "center": True, "standardize": draw(st.integers(0, 2)) == 0,
            "use_pca": draw(st.integers(0, 3)) > 0, "scale_exp": draw(st.sampled_from([0, 0, -3, 3]))}


def rot(theta):
    return np.array([[np.cos(theta), -np.sin(theta)], [np.sin(theta), np.cos(theta)]])


def build(desc):
    rng = np.random.default_rng(desc["seed"])
    n, p = desc["n"], desc["p"]
    if desc["kind"] == "osc":
        dim = desc["k"]
        B = np.zeros((dim, dim))
        i = 0
        for b in desc["blocks"]:
            B[i:i + 2, i:i + 2] = b["r"] * rot(b["theta"])
            i += 2
        for r in desc["reals"]:
            B[i, i] = r
            i += 1
        Q, _ = np.linalg.qr(rng.standard_normal((p, p)))
        E = Q[:, :dim]  # orthonormal embedding of the dynamics into feature space
        x = rng.standard_normal(dim) + 1.0
        Z = np.empty((n, dim))
        for t in range(n):
            Z[t] = x
            x = B @ x
        X = Z @ E.T
        true = np.linalg.eigvals(B)
        return X, true
    A = rng.standard_normal((p, p))
    A = A / max(1e-9, np.max(np.abs(np.linalg.eigvals(A)))) * desc["rho"]
    x = rng.standard_normal(p)
    X = np.empty((n, p))
    for t in range(n):
        X[t] = x
        x = A @ x + desc["noise"] * rng.standard_normal(p)
    X = X * 10.0 ** desc.get("scale_exp", 0) + rng.standard_normal(p) * 3
    return X, None


def run_case(desc, ctx):
    import xeofs as xe

    X, true = build(desc)
    n, p = X.shape
    ctx.event(f"kind={desc['kind']}")
    ctx.event("pca" if desc["use_pca"] else "no_pca")
    disc = dict(kind=desc["kind"], use_pca=desc["use_pca"])
    # reference preprocessing and PCA reduction
    P = X - X.mean(0) if desc["center"] else X.copy()
    if desc["standardize"]:
        P = P / np.clip(X.std(0), np.finfo(np.float32).eps, None)
    if desc["use_pca"]:
        k = desc["k"]
        U, s, Vh = np.linalg.svd(P, full_matrices=False)
        if k < len(s) and (s[k - 1] - s[k]) <= 1e-4 * s[0]:
            ctx.refused("generator: no spectral gap after the last retained PC")
        if s[k - 1] <= 1e-8 * s[0]:
            ctx.refused("generator: retained PC with zero variance")
        V = Vh[:k].T
    else:
        k = p
        V = np.eye(p)
    Xr = P @ V
    C0 = Xr[:-1].T @ Xr[:-1]
    if np.linalg.cond(C0) > 1e8 or n - 1 <= k:
        ctx.refused("generator: lag-0 covariance ill-conditioned")
    C1 = Xr[1:].T @ Xr[:-1]
    A = C1 @ np.linalg.inv(C0)
    lam_ref = np.linalg.eigvals(A)
    Af = V @ A @ V.T
    n_pairs = int(np.sum(np.abs(lam_ref.imag) > 1e-9 * np.max(np.abs(lam_ref))) // 2)
    ctx.nontrivial(n_pairs >= 1)
    ctx.event(f"pairs={min(n_pairs, 3)}")

    da = xr.DataArray(X, dims=("time", "x"), coords={"time": np.arange(n), "x": np.arange(p) * 1.5})
    model = xe.single.POP(n_modes=k, center=desc["center"], standardize=desc["standardize"], use_pca=desc["use_pca"],
                          n_pca_modes=k, pca_init_rank_reduction=1.0, solver="full", random_state=1)
    if isinstance(call(ctx, "fit_raises", model.fit, da, "time", disc=disc), Failed):
        return
    comps = model.components().transpose("x", "mode").values
    lam = np.asarray(model.eigenvalues().values)
    per = np.asarray(model.periods().values, dtype=float)
    damp = np.asarray(model.damping_times().values, dtype=float)
    sc = model.scores().transpose("time", "mode").values
    if not ctx.check(comps.shape == (p, k) and lam.shape == (k,), "n_modes", f"components {comps.shape}, eigenvalues {lam.shape}, expected {k} modes", **disc):
        return
    # eigen-relation per mode
    nA = np.linalg.norm(Af, 2)
    worst = 0.0
    for m in range(k):
        pm = comps[:, m]
        if np.linalg.norm(pm) == 0:
            ctx.violation("zero_pattern", f"mode {m + 1} pattern is zero", **disc)
            continue
        res = np.linalg.norm(Af @ pm - lam[m] * pm) / (nA * np.linalg.norm(pm))
        worst = max(worst, res)
    ctx.check(worst <= 1e-7, "eigen_relation", f"|A p - lambda p|/(|A||p|) = {worst:.3g}", **disc)
    # eigenvalue multiset
    key = lambda z: (round(z.real, 9), round(z.imag, 9))  # noqa: E731
    a = np.array(sorted(lam, key=key))
    b = np.array(sorted(lam_ref, key=key))
    scale = np.max(np.abs(lam_ref))
    e = float(np.max(np.abs(np.sort_complex(a) - np.sort_complex(b)))) / scale
    ctx.check(e <= 1e-6, "eigenvalue_multiset", f"eigenvalues differ from eig(A) by {e:.3g}", **disc)
    # conjugate pairs
    for z in lam:
        if abs(z.imag) > 1e-9 * scale:
            ctx.check(np.min(np.abs(lam - np.conj(z))) <= 1e-7 * scale, "conjugate_pairs", f"{z} has no conjugate partner", **disc)
    # formulas
    with np.errstate(all="ignore"):
        d_ref = -1 / np.log(np.abs(lam))
        ang = np.angle(lam)
        p_ref = np.where(np.abs(lam.imag) <= 1e-12 * scale, np.where(lam.real >= 0, np.inf, 2.0), 2 * np.pi / ang)
    okd = np.isfinite(d_ref)
    ctx.check(relerr(damp[okd], d_ref[okd]) <= 1e-9, "damping_formula", f"damping_times != -1/log|lambda| ({relerr(damp[okd], d_ref[okd]):.3g})", **disc)
    fin = np.isfinite(p_ref)
    ctx.check(np.array_equal(np.isfinite(per), fin) or np.all(np.abs(per[~fin]) > 1e12), "period_infinite_for_real",
              f"periods {per} vs eigenvalues {lam}", **disc)
    if fin.any() and np.array_equal(np.isfinite(per), fin):
        ctx.check(relerr(per[fin], p_ref[fin]) <= 1e-9, "period_formula", f"periods != 2 pi/arg(lambda): {per[fin]} vs {p_ref[fin]}", **disc)
    # ordering by descending std of the coefficient series
    sd = np.std(sc, axis=0)
    ctx.check(np.all(np.diff(sd) <= 1e-9 * sd.max()), "order_by_std", f"std of coefficient series not descending: {sd}", **disc)
    # transform(training data) = scores
    tr = call(ctx, "transform_raises", model.transform, da, disc=disc)
    if not isinstance(tr, Failed):
        e = relerr(tr.transpose("time", "mode").values, sc)
        ctx.check(e <= 1e-8, "transform_eq_scores", f"rel err {e:.3g}", **disc)
    # oscillator recovery
    if true is not None:
        dt_true = np.sort(-1 / np.log(np.abs(true)))
        dt_got = np.sort(damp)
        ctx.check(relerr(dt_got, dt_true) <= 1e-6, "oscillator_damping", f"damping {dt_got} vs true {dt_true}", **disc)
        with np.errstate(all="ignore"):
            pt = np.sort(np.abs(2 * np.pi / np.angle(true[np.abs(true.imag) > 1e-12])))
            pg = np.sort(np.abs(per[np.isfinite(per) & (np.abs(lam.imag) > 1e-9 * scale)]))
        if pt.shape == pg.shape:
            ctx.check(relerr(pg, pt) <= 1e-6, "oscillator_period", f"periods {pg} vs true {pt}", **disc)
        else:
            ctx.violation("oscillator_period", f"{len(pg)} oscillating modes recovered, {len(pt)} expected", **disc)
