"""C02 — outputs keep the input's structure and attach every value to its own label."""

from __future__ import annotations

import itertools

import numpy as np
import xarray as xr
from hypothesis import strategies as st

from vlib import layouts as L
from vlib import oracle
from vlib.tab import Table, items_of, structure_of, table_from_obj
from vlib.util import Failed, call, relerr

ID = "C02"
RULE = (
    "Hypothesis draws a layout (container da/ds/list x 1..3 sample dims x 1..3 feature dims x dim order x index kind "
    "per dim in range/unsorted int/float/descending float/str/datetime/MultiIndex x Dataset variables with equal or "
    "different dim sets x extra non-index coords x sample_name/feature_name) and preprocessing flags; thorough tier "
    "additionally enumerates container x (n_sample_dims,n_feature_dims) x index-kind pair x order variant. "
    "Non-trivial: some role has >=2 dims, or a non-range index, or Dataset/list container."
)
ASSUMPTIONS = [
    "comparison is by label only (element order along a dimension is free, as the property allows)",
    "extra non-index coordinates are not required to survive",
    "list items share identical sample coordinates (xeofs concatenates them along the feature axis)",
    "model-level values use the rank-k reconstruction, unique when sigma_k > sigma_{k+1} (otherwise only structure is asserted)",
]
TIERS = {"quick": (4, 200), "thorough": (16, 500)}


@st.composite
def strategy(draw):
    coslat = draw(st.integers(0, 4)) == 0
    lay = draw(L.layout(lat=coslat))
    return {
        "layout": lay,
        "center": draw(st.booleans()), "std": draw(st.integers(0, 2)) == 0, "coslat": coslat,
        "weights": draw(st.integers(0, 2)) == 0,
        "names": draw(st.sampled_from([["sample", "feature"], ["sample", "feature"], ["S", "F"], ["obs", "grid_cell"]])),
        "kfrac": draw(st.floats(0, 1)),
    }


def _enum_layout(container, nsd, nfd, skind, fkind, variant):
    snames, fnames = L.SAMPLE_NAMES[:nsd], ["lat", "lon", "lev"][:nfd]
    sdims = [{"name": n, "size": 3 if i == 0 else 2, "kind": skind if i == 0 else "range", "lseed": 11 + i} for i, n in enumerate(snames)]
    def pool(shift):
        return [{"name": n, "size": 2 + (i + shift) % 2, "kind": fkind if i == 0 else ("int_unsorted" if variant == 2 else "range"),
                 "lseed": 21 + i + shift} for i, n in enumerate(fnames)]
    if container == "da":
        items = [{"type": "da", "fpool": pool(0), "vars": [{"name": "field", "fd": list(range(nfd)), "oseed": variant}]}]
    elif container == "ds":
        vars_ = [{"name": "sst", "fd": list(range(nfd)), "oseed": variant},
                 {"name": "t2m", "fd": list(range(nfd)) if variant != 1 else [0], "oseed": variant + 5}]
        items = [{"type": "ds", "fpool": pool(0), "vars": vars_}]
    else:
        items = [{"type": "da", "fpool": pool(0), "vars": [{"name": None, "fd": list(range(nfd)), "oseed": variant}]},
                 {"type": "da", "fpool": pool(1), "vars": [{"name": "b", "fd": list(range(nfd)), "oseed": variant + 3}]}]
    return {"container": container, "sdims": sdims, "items": items, "extra_coords": variant == 1, "seed": 1000 + variant}


def extra_cases(tier):
    if tier != "thorough":
        return
    skinds = [k for k in L.KINDS if k != "float_desc"]
    for container, nsd, nfd, sk, fk, variant in itertools.product(("da", "ds", "list"), (1, 2, 3), (1, 2, 3), skinds, L.KINDS, (0, 1, 2)):
        yield {"layout": _enum_layout(container, nsd, nfd, sk, fk, variant), "center": variant != 2, "std": variant == 1,
               "coslat": False, "weights": variant == 2, "names": ["sample", "feature"] if variant == 0 else ["S", "F"], "kfrac": 0.5}


def weights_like(obj, sdims, seed):
    rng = np.random.default_rng(seed)

    def one(o):
        if isinstance(o, xr.Dataset):
            return xr.Dataset({n: one(o[n]) for n in o.data_vars})
        f = o.isel({d: 0 for d in sdims}, drop=True)
        return xr.DataArray(rng.uniform(0.3, 3.0, f.shape), dims=f.dims, coords={d: f.coords[d] for d in f.dims})

    return L.map_items(obj, one)


def weight_dict(w):
    wt = table_from_obj(w, [])
    return {c: wt.M[0, j] for j, c in enumerate(wt.cols)}


def compare_structure(ctx, sub, ref_obj, out_obj, drop_dims=(), add_dims=(), disc=None):
    """Same container type / item kinds / var names / per-variable dim sets and label sets."""
    disc = disc or {}
    k0, kinds0, items0 = structure_of(ref_obj)
    try:
        k1, kinds1, items1 = structure_of(out_obj)
    except TypeError as e:
        ctx.violation(sub, f"output is not an xarray container: {e}", **disc)
        return False
    ok = ctx.check(k0 == k1 and kinds0 == kinds1, sub, f"container {k1}/{kinds1} != {k0}/{kinds0}", **disc)
    # Dataset variables are matched by name (their order is not meaningful); DataArray names may
    # legitimately change (results carry their own names), so plain items are matched by position.
    def keyed(items, kinds):
        out = {}
        for i, v, dims, labs, mi in items:
            key = (i, v) if (i < len(kinds) and kinds[i] == "Dataset") else (i, None)
            out[key] = (dims, labs, mi)
        return out

    m0, m1 = keyed(items0, kinds0), keyed(items1, kinds1)
    if not ctx.check(set(m0) == set(m1), sub, f"variables/items {sorted(map(str, m1))} != {sorted(map(str, m0))}", **disc):
        return False
    for key in m0:
        (dims0, labs0, mi0), (dims1, labs1, mi1) = m0[key], m1[key]
        i, v = key
        want = (set(dims0) - set(drop_dims)) | set(add_dims)
        if not ctx.check(set(dims1) == want, sub, f"item {i} var {v}: dims {sorted(dims1)} != {sorted(want)}", **disc):
            ok = False
            continue
        for d in want - set(add_dims):
            if not ctx.check(labs1[d] == labs0[d], sub, f"item {i} var {v}: labels of '{d}' differ: {sorted(map(str, labs1[d]))[:5]} vs {sorted(map(str, labs0[d]))[:5]}", **disc):
                ok = False
            if not ctx.check(mi1[d] == mi0[d], sub, f"item {i} var {v}: dim '{d}' MultiIndex={mi1[d]} expected {mi0[d]}", **disc):
                ok = False
    return ok


def values_at_labels(ctx, sub, ref: Table, out_obj, row_dims, rtol=1e-9, disc=None, scale=None):
    try:
        out = table_from_obj(out_obj, row_dims)
        got = out.at(ref.rows, ref.cols)
    except (KeyError, ValueError) as e:
        ctx.violation(sub, f"label lookup failed: {type(e).__name__} {str(e)[:150]}", **(disc or {}))
        return False
    e = relerr(got, ref.M, scale=scale)
    return ctx.check(e <= rtol, sub, f"values differ at labels (rel err {e:.3g})", **(disc or {}))


def unpreprocess(P: Table, T: Table, center, std, coslat, wd):
    """Invert oracle.preprocess column-wise for a matrix laid out like P."""
    M = np.array(P.M, dtype=float)
    for j, c in enumerate(P.cols):
        col = T.M[:, T.ci[c]]
        if wd is not None:
            M[:, j] /= wd[c]
        if coslat:
            M[:, j] /= np.sqrt(np.clip(np.cos(np.deg2rad(oracle.col_latitude(c))), 0, 1))
        if std:
            M[:, j] *= max(np.nanstd(col), oracle.EPS32)
        if center:
            M[:, j] += np.nanmean(col)
    return Table(P.rows, P.cols, M)


def run_case(desc, ctx):
    from xeofs.preprocessing.preprocessor import Preprocessor
    import xeofs as xe

    lay = desc["layout"]
    obj, sdims = L.build(lay)
    for ev in L.classes(lay):
        ctx.event(ev)
    ctx.nontrivial(L.nontrivial_layout(lay))
    sname, fname = desc["names"]
    if sname in [d["name"] for d in lay["sdims"]] and len(sdims) > 1:
        sname = "S"
    flags = f"c{int(desc['center'])}s{int(desc['std'])}l{int(desc['coslat'])}w{int(desc['weights'])}"
    ctx.event("flags=" + flags)
    ds_diff = any(it["type"] == "ds" and len({tuple(v["fd"]) for v in it["vars"]}) > 1 for it in lay["items"])
    has_ds = any(it["type"] == "ds" for it in lay["items"])
    disc = dict(container=lay["container"], nsd=len(sdims), has_ds=has_ds, ds_diff_dims=ds_diff)
    w = weights_like(obj, sdims, lay["seed"] + 1) if desc["weights"] else None
    wd = weight_dict(w) if w is not None else None

    T = table_from_obj(obj, sdims)
    P = oracle.preprocess(T, desc["center"], desc["std"], desc["coslat"], wd)

    # ---- Preprocessor round trip
    pre = Preprocessor(sample_name=sname, feature_name=fname, with_center=desc["center"], with_std=desc["std"],
                       with_coslat=desc["coslat"])
    Z = call(ctx, "preprocessor_fit_transform_raises", pre.fit_transform, obj, tuple(sdims), w, disc=disc)
    if isinstance(Z, Failed):
        return
    ctx.check(tuple(Z.dims) == (sname, fname), "matrix_dims", f"{Z.dims}", **disc)
    ctx.check(Z.shape == P.M.shape, "matrix_shape", f"{Z.shape} != {P.M.shape}", **disc)
    if Z.shape == P.M.shape:
        # forward direction: same matrix up to the (label-determined) ordering of rows and columns
        sz = np.linalg.svd(np.asarray(Z.values, dtype=float), compute_uv=False)
        sr = np.linalg.svd(P.M, compute_uv=False)
        ctx.check(relerr(sz, sr) <= 1e-9, "matrix_values", f"singular values of the stacked matrix differ from the reference ({relerr(sz, sr):.3g})", **disc)
        ctx.check(relerr(np.sort(np.asarray(Z.values).ravel()), np.sort(P.M.ravel())) <= 1e-9, "matrix_values",
                  "multiset of entries of the stacked matrix differs from the reference", **disc)
    back = call(ctx, "inverse_transform_data_raises", pre.inverse_transform_data, Z, disc=disc)
    if not isinstance(back, Failed):
        if compare_structure(ctx, "roundtrip_structure", obj, back, disc=disc):
            values_at_labels(ctx, "roundtrip_values", T, back, sdims, disc=disc)

    # ---- model level
    n, p = P.M.shape
    rank = min(n, p)
    k = max(1, min(rank, 1 + int(desc["kfrac"] * (rank - 1))))
    model = xe.single.EOF(n_modes=k, center=desc["center"], standardize=desc["std"], use_coslat=desc["coslat"],
                          sample_name=sname, feature_name=fname, solver="full")
    fit = call(ctx, "model_fit_raises", model.fit, obj, sdims, weights=w, disc=disc)
    if isinstance(fit, Failed):
        return
    comps = call(ctx, "components_raises", model.components, disc=disc)
    scores = call(ctx, "scores_raises", model.scores, disc=disc)
    U, s, Vh = np.linalg.svd(P.M, full_matrices=False)
    unique = k == rank or (s[k - 1] - s[k]) > 1e-7 * s[0]
    R = Table(P.rows, P.cols, (U[:, :k] * s[:k]) @ Vh[:k])
    if not isinstance(comps, Failed):
        compare_structure(ctx, "components_structure", obj, comps, drop_dims=sdims, add_dims=["mode"], disc=disc)
    if not isinstance(scores, Failed):
        ok = ctx.check(isinstance(scores, xr.DataArray) and set(scores.dims) == set(sdims) | {"mode"}, "scores_structure",
                       f"scores dims {getattr(scores, 'dims', None)} != {sdims}+mode", **disc)
        if ok:
            first = items_of(obj)[0][2]
            from vlib.tab import dim_labels
            for d in sdims:
                ctx.check(set(dim_labels(scores, d)) == set(dim_labels(first, d)), "scores_structure", f"labels of {d} differ", **disc)
    if not isinstance(comps, Failed) and not isinstance(scores, Failed) and unique:
        try:
            Ct = table_from_obj(comps, ["mode"])
            St = table_from_obj(scores, sdims)
            V = Ct.at([(m,) for m in range(1, k + 1)], P.cols).T
            S = St.at(P.rows, [(0, None, frozenset({("mode", m)})) for m in range(1, k + 1)])
            e = relerr(S @ V.T, R.M, scale=s[0] if s[0] > 0 else 1.0)
            ctx.check(e <= 1e-8, "model_values_at_labels", f"scores x components differ from the reference rank-{k} reconstruction at labels ({e:.3g})", **disc)
        except (KeyError, ValueError) as err:
            ctx.violation("model_values_at_labels", f"label lookup failed: {type(err).__name__} {str(err)[:120]}", **disc)
    if not isinstance(scores, Failed):
        rec = call(ctx, "inverse_transform_raises", model.inverse_transform, scores, disc=disc)
        if not isinstance(rec, Failed):
            if compare_structure(ctx, "reconstruction_structure", obj, rec, disc=disc) and unique:
                Rp = Table(P.rows, P.cols, R.M)
                Rphys = unpreprocess(Rp, T, desc["center"], desc["std"], desc["coslat"], wd)
                values_at_labels(ctx, "reconstruction_values", Rphys, rec, sdims, rtol=1e-8, disc=disc,
                                 scale=float(np.nanmax(np.abs(T.M))))
