"""C09 — cross-set models diagonalise the (partially whitened) cross-covariance."""

from __future__ import annotations

import numpy as np
import xarray as xr
from hypothesis import strategies as st

from vlib import models as M
from vlib import oracle
from vlib.util import Failed, call, relerr

ID = "C09"
RULE = (
    "Hypothesis draws two fields with shared latent signals (n 8..40, p 1..10, p > n-2 only with PCA), real/complex/Hilbert "
    "class in CPCCA/MCA/CCA/RDA x plain/Complex/Hilbert, alpha in [0,1]^2, per-field PCA off / int / 'all' / fraction, "
    "n_modes 1..rank, seeds; a second data pair with the same N/alpha/PCA sizes is drawn in the same case. "
    "Non-trivial: alpha != (1,1) or PCA on or n_modes >= 2."
)
ASSUMPTIONS = [
    "reference: centre, PCA by svd, C^((alpha-1)/2) by eigh with N-1, cross-covariance /(N-1), svd",
    "the proportionality factor between model and reference singular values is only required to be mode-independent, "
    "data-independent (checked on the second pair) and 1 for MCA - its formula is not pinned",
    "correlations are compared with sum(conj(a) b)/sqrt(sum|a|^2 sum|b|^2) of the returned (centred) scores / preprocessed data",
    "tolerances scale with cond^(1-alpha); cases with cond > 1e4 of a whitened field are discarded",
    "Hilbert classes: p' <= n//2 - 1 per whitened field (rank of the analytic signal)",
]
TIERS = {"quick": (8, 60), "thorough": (16, 600)}

BASES = ["CPCCA", "MCA", "CCA", "RDA"]


@st.composite
def strategy(draw):
    base = draw(st.sampled_from(BASES))
    variant = draw(st.sampled_from(["", "", "Complex", "Hilbert"]))
    n = draw(st.integers(8, 40))
    d = {"cls": variant + base, "n": n, "seed": draw(st.integers(0, 2**31 - 1)), "fields": []}
    al = list(M.cross_alpha({"cls": d["cls"], "alpha": [draw(M.alphas), draw(M.alphas)]}))
    d["alpha"] = al
    hil = variant == "Hilbert"
    for i in range(2):
        p = draw(st.integers(1, 10))
        mode = draw(st.sampled_from(["off", "int", "all", "frac"]))
        cap = (max(1, n // 2 - 1) if hil else n - 2) if al[i] < 1 else min(n - 1, 10)
        k = None
        if mode == "off" and p > cap:
            mode = "int"
        if mode == "all" and min(p, n - 1) > cap:
            mode = "int"
        if mode == "int":
            k = draw(st.integers(1, max(1, min(p, cap))))
        if mode == "frac" and al[i] < 1 and min(p, n - 1) > cap:
            mode, k = "int", max(1, min(p, cap))
        d["fields"].append({"p": p, "pca": mode, "k": k, "frac": draw(st.floats(0.3, 0.999))})
    d["kfrac"] = draw(st.floats(0, 1))
    d["nlatent"] = draw(st.integers(1, 3))
    d["noise"] = draw(st.sampled_from([0.3, 1.0, 0.05]))
    d["standardize"] = draw(st.integers(0, 3)) == 0
    d["padding"] = draw(st.sampled_from(["exp", None]))
    return d


def make_pair(desc, shift):
    rng = np.random.default_rng(desc["seed"] + shift)
    n = desc["n"]
    cplx = desc["cls"].startswith("Complex")
    L = rng.standard_normal((n, desc["nlatent"]))
    out = []
    for f in desc["fields"]:
        A = rng.standard_normal((desc["nlatent"], f["p"]))
        Z = L @ A + desc["noise"] * rng.standard_normal((n, f["p"])) * (1 + np.arange(f["p"]) * 0.3)
        if cplx:
            Z = Z + 1j * (L @ rng.standard_normal((desc["nlatent"], f["p"])) + desc["noise"] * rng.standard_normal((n, f["p"])))
        Z = Z + rng.standard_normal(f["p"]) * 2
        out.append(Z)
    return out


def reference(desc, XY):
    """-> dict with reduced fields, whitened fields, singular values, kept PCA counts; None if outside the tolerance domain."""
    n = desc["n"]
    hil = desc["cls"].startswith("Hilbert")
    red, wh, ks, conds = [], [], [], []
    for i, (Z, f) in enumerate(zip(XY, desc["fields"])):
        Zc = Z - Z.mean(0)
        if desc["standardize"]:
            Zc = Zc / np.clip(Z.std(0), oracle.EPS32, None)
        if f["pca"] != "off":
            U, s, Vh = np.linalg.svd(Zc, full_matrices=False)
            rank = len(s)
            if f["pca"] == "int":
                k = f["k"]
            elif f["pca"] == "all":
                k = rank
            else:
                cum = np.cumsum(s**2) / np.sum(s**2)
                if np.any(np.abs(cum - f["frac"]) < 1e-7):
                    return None
                k = int(np.nonzero(cum >= f["frac"])[0][0]) + 1
            if k > rank:
                return None
            if k < rank and (s[k - 1] - s[k]) < 1e-6 * s[0]:
                return None
            R = Zc @ Vh[:k].conj().T
        else:
            k = Zc.shape[1]
            R = Zc
        if hil:
            R = oracle.analytic_signal(R.real, desc["padding"], 0.2)
        a = desc["alpha"][i]
        if a < 1:
            sv = np.linalg.svd(R, compute_uv=False)
            if sv[-1] <= 1e-12 * sv[0] or (sv[0] / sv[-1]) > 1e4:
                return None
            conds.append((sv[0] / sv[-1]) ** (1 - a))
            C = R.conj().T @ R / (n - 1)
            W = R @ oracle.frac_power(C, (a - 1) / 2)
        else:
            conds.append(1.0)
            W = R
        red.append(R)
        wh.append(W)
        ks.append(k)
    Cx = wh[0].conj().T @ wh[1] / (n - 1)
    s = np.linalg.svd(Cx, compute_uv=False)
    return {"red": red, "wh": wh, "k": ks, "s": s, "amp": max(conds), "Cred": red[0].conj().T @ red[1] / (n - 1)}


def fit_model(desc, XY, n_modes):
    import xeofs as xe

    n = desc["n"]
    X = xr.DataArray(XY[0], dims=("time", "x"), coords={"time": np.arange(n), "x": np.arange(XY[0].shape[1])})
    Y = xr.DataArray(XY[1], dims=("time", "y"), coords={"time": np.arange(n), "y": np.arange(XY[1].shape[1]) * 2})
    cls = desc["cls"]
    kw = dict(n_modes=n_modes, standardize=desc["standardize"], use_pca=[f["pca"] != "off" for f in desc["fields"]],
              n_pca_modes=[(f["k"] if f["pca"] == "int" else "all" if f["pca"] in ("all", "off") else f["frac"]) for f in desc["fields"]],
              pca_init_rank_reduction=1.0, solver="full", random_state=3)
    if cls.endswith("CPCCA"):
        kw["alpha"] = desc["alpha"]
    if cls.startswith("Hilbert"):
        kw["padding"] = desc["padding"]
    model = getattr(xe.cross, cls)(**kw)
    model.fit(X, Y, "time")
    return model, X, Y


def corr(a, b):
    """Pearson correlation of centred (complex) series, columns of a against columns of b."""
    a = a - a.mean(0)
    b = b - b.mean(0)
    num = a.conj().T @ b
    den = np.sqrt(np.sum(np.abs(a) ** 2, 0))[:, None] * np.sqrt(np.sum(np.abs(b) ** 2, 0))[None, :]
    return num / den


def run_case(desc, ctx):
    cls = desc["cls"]
    n = desc["n"]
    ctx.event(f"cls={cls}")
    al = desc["alpha"]
    ctx.event("alpha=" + ("1" if min(al) >= 1 else "0" if max(al) <= 0 else "frac"))
    for f in desc["fields"]:
        ctx.event(f"pca={f['pca']}")
    XY = make_pair(desc, 0)
    ref = reference(desc, XY)
    if ref is None:
        ctx.refused("generator: outside tolerance domain (gap/conditioning)")
    rank = min(ref["k"])
    k = max(1, min(rank, 1 + int(desc["kfrac"] * (rank - 1))))
    disc = dict(cls=cls, alpha_lt1=bool(min(al) < 1), base=M.base_of(cls).replace("Complex", "").replace("Hilbert", ""))
    ctx.nontrivial(min(al) < 1 or any(f["pca"] != "off" for f in desc["fields"]) or k >= 2)
    r = call(ctx, "fit_raises", fit_model, desc, XY, k, disc=disc)
    if isinstance(r, Failed):
        return
    model, X, Y = r
    tol = 1e-8 * max(1.0, ref["amp"]) * 10
    # queries with non-default flags first: accessors must not alter what is read afterwards
    call(ctx, "accessor_raises", model.scores, normalized=True, disc=disc)
    call(ctx, "accessor_raises", model.components, normalized=False, disc=disc)
    sv = np.asarray(model.data["singular_values"].values, dtype=float)
    S1 = model.data["scores1"].transpose("sample", "mode").values
    S2 = model.data["scores2"].transpose("sample", "mode").values
    # public accessors agree with the stored arrays
    ps1, ps2 = model.scores()
    e = max(relerr(ps1.transpose("time", "mode").values, S1), relerr(ps2.transpose("time", "mode").values, S2))
    ctx.check(e <= 1e-12, "public_scores", f"scores() differ from stored scores ({e:.3g})", **disc)

    # (a) score cross-covariance is diagonal with the reported singular values
    Csc = S1.conj().T @ S2 / (n - 1)
    scale = max(float(np.abs(sv).max()), 1e-300)
    e = float(np.abs(Csc - np.diag(sv)).max()) / scale
    ctx.check(e <= tol, "score_crosscov_diagonal", f"|S1^H S2/(N-1) - diag(sigma)|/sigma_1 = {e:.3g} (tol {tol:.1g})", **disc)
    ctx.check(np.all(sv >= -1e-12 * scale) and np.all(np.diff(sv) <= 1e-10 * scale), "singular_values_order", f"{sv}", **disc)

    # (b) proportional to the reference singular values
    sref = ref["s"][:k]
    good = sref > 1e-6 * sref[0]
    ratio = sv[good] / sref[good]
    spread = float(np.max(np.abs(ratio - ratio[0]))) / ratio[0]
    ctx.check(spread <= tol * 10, "singular_values_proportional", f"sigma_model/sigma_ref not constant over modes: {ratio}", **disc)
    if disc["base"] == "MCA":
        ctx.check(abs(ratio[0] - 1) <= tol, "mca_singular_values_exact", f"MCA factor {ratio[0]!r} != 1", **disc)
    # same factor for another data pair of the same N / alpha / sizes
    XY2 = make_pair(desc, 1000)
    desc2 = dict(desc, fields=[dict(f, pca=("int" if f["pca"] == "frac" else f["pca"]), k=(ref["k"][i] if f["pca"] == "frac" else f["k"]))
                               for i, f in enumerate(desc["fields"])])
    ref2 = reference(desc2, XY2)
    if ref2 is not None and min(ref2["k"]) >= k:
        r2 = call(ctx, "fit_raises", fit_model, desc2, XY2, k, disc=dict(disc, second_pair=True))
        if not isinstance(r2, Failed):
            sv2 = np.asarray(r2[0].data["singular_values"].values, dtype=float)
            ratio2 = sv2[0] / ref2["s"][0]
            ctx.event("second_pair")
            ctx.check(abs(ratio2 - ratio[0]) <= tol * 10 * ratio[0], "factor_data_independent",
                      f"factor {ratio[0]!r} for one data pair, {ratio2!r} for another of the same N/alpha", **disc)

    hil = cls.startswith("Hilbert")
    # (c) MCA specifics
    if disc["base"] == "MCA":
        Q1 = model.data["components1"].transpose(..., "mode").values
        Q2 = model.data["components2"].transpose(..., "mode").values
        for i, Q in enumerate((Q1, Q2)):
            e = float(np.abs(Q.conj().T @ Q - np.eye(k)).max())
            ctx.check(e <= 1e-9, "mca_components_orthonormal", f"field {i}: |Q^H Q - I| = {e:.3g}", **disc)
        scf = call(ctx, "scf_raises", model.squared_covariance_fraction, disc=disc)
        if not isinstance(scf, Failed):
            want = sref**2 / np.sum(np.abs(ref["Cred"]) ** 2)
            e = relerr(np.asarray(scf.values, dtype=float), want, scale=1.0)
            ctx.check(e <= 1e-8, "mca_scf", f"SCF {np.asarray(scf.values)} vs sigma^2/|C|_F^2 {want}", **disc)
            if k == rank:
                ctx.check(abs(float(np.sum(scf.values)) - 1) <= 1e-8, "mca_scf_sums_to_one", f"sum = {float(np.sum(scf.values))!r}", **disc)
    # (d) CCA: correlation between paired scores = canonical correlations
    # (correlations of numerically null modes - reference singular value below 1e-6 of the first, e.g. modes beyond the
    #  rank of an analytic signal - are 0/0 and are not compared)
    if not np.all(good):
        ctx.event("null_modes_excluded_from_correlations")
    cc = np.real(np.diag(corr(S1, S2)))
    if disc["base"] == "CCA":
        e = relerr(cc[good], sref[good], scale=1.0)
        ctx.check(e <= tol, "cca_canonical_correlations", f"corr(scores1_i, scores2_i) = {cc} vs reference {sref}", **disc)
    # (e) reported correlations are genuine correlations
    ccc = call(ctx, "cross_corr_raises", model.cross_correlation_coefficients, disc=disc)
    if not isinstance(ccc, Failed):
        v = np.asarray(ccc.values, dtype=float)
        ctx.check(relerr(v[good], cc[good], scale=1.0) <= 1e-9, "cross_correlation_coefficients", f"reported {v} vs corr of returned scores {cc}", **disc)
        ctx.check(np.all(np.abs(v[good]) <= 1 + 1e-9), "correlation_in_range", f"cross correlation outside [-1,1]: {v}", **dict(disc, which="cross"))
    for which, S, fn in (("X", S1, model.correlation_coefficients_X), ("Y", S2, model.correlation_coefficients_Y)):
        cm = call(ctx, "corr_coef_raises", fn, disc=dict(disc, which=which))
        if isinstance(cm, Failed):
            continue
        v = np.asarray(cm.values)[np.ix_(good, good)]
        want = corr(S, S)[np.ix_(good, good)]
        ctx.check(relerr(v, want, scale=1.0) <= 1e-9, "correlation_coefficients", f"{which}: reported matrix differs from corr of scores ({relerr(v, want, scale=1.0):.3g}); diag {np.real(np.diag(v))[:3]}",
                  **dict(disc, which=which))
        ctx.check(np.all(np.abs(np.diag(v) - 1) <= 1e-9), "self_correlation_one", f"{which}: diag = {np.real(np.diag(v))[:4]}", **dict(disc, which=which))
    # homogeneous / heterogeneous patterns against the preprocessed physical-space data
    if not hil:
        pre = []
        for Z in XY:
            Zc = Z - Z.mean(0)
            if desc["standardize"]:
                Zc = Zc / np.clip(Z.std(0), oracle.EPS32, None)
            pre.append(Zc)
        full_pca = all(f["pca"] in ("off", "all") or (f["pca"] == "int" and f["k"] >= min(n - 1, f["p"])) for f in desc["fields"])
        for name, fn, pairs in (("homogeneous", model.homogeneous_patterns, ((0, S1), (1, S2))),
                                ("heterogeneous", model.heterogeneous_patterns, ((0, S2), (1, S1)))):
            out = call(ctx, "patterns_raises", fn, disc=dict(disc, which=name))
            if isinstance(out, Failed):
                continue
            pats, _ = out
            for (i, S), pat in zip(pairs, pats):
                v = pat.transpose(..., "mode").values
                ctx.check(np.all(np.abs(v) <= 1 + 1e-9), "correlation_in_range", f"{name} pattern {i} outside [-1,1]: max {np.abs(v).max()}", **dict(disc, which=name))
                if full_pca:
                    want = corr(pre[i], S)
                    ok = np.std(pre[i], axis=0) > 1e-12
                    e = relerr(v[ok], want[ok], scale=1.0)
                    ctx.check(e <= 1e-7, "patterns_are_correlations", f"{name} pattern of field {i} differs from corr(data, scores) by {e:.3g}", **dict(disc, which=name))
