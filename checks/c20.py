"""C20 — bootstrap members are sign-aligned, reproducible EOF analyses of resamples."""

from __future__ import annotations

import numpy as np
import xarray as xr
from hypothesis import strategies as st

from vlib import layouts as L
from vlib.tab import table_from_obj
from vlib.util import Failed, call, relerr

ID = "C20"
RULE = (
    "Hypothesis draws a layout (container x 1-2 sample dims x 1-2 feature dims x index kinds), preprocessing flags "
    "(center/standardize/weights), custom or default sample_name/feature_name, n_modes, n_bootstraps 1..50 (quick <= 8), integer "
    "seeds, and whether the same bootstrapper object is fitted twice. A recording subclass bound to xeofs.validation.bootstrapper.EOF "
    "for the duration of one case captures the matrix every member is fitted on. Non-trivial: n_bootstraps >= 2."
)
ASSUMPTIONS = [
    "members are fitted with the default solver: with n_modes > 0.8 rank it is exact (tolerance 1e-8), otherwise randomised and unseeded "
    "(tolerance 1e-4 on variances when a spectral gap follows the last mode; orthonormality and the resample structure stay exact)",
    "reference EOF of a resample: centre the captured matrix, numpy svd",
    "the recording subclass only copies the argument of fit() and defers to the real EOF",
]
TIERS = {"quick": (8, 25), "thorough": (16, 250)}
CASE_TIMEOUT = 400


@st.composite
def strategy(draw):
    lay = draw(L.layout(max_sd=2, max_fd=2, max_size=4, min_samples=10, min_features=3, max_items=2, max_vars=2))
    return {"lay": lay, "center": draw(st.integers(0, 3)) > 0, "standardize": draw(st.integers(0, 2)) == 0, "weights": draw(st.integers(0, 3)) == 0,
            "names": draw(st.sampled_from([["sample", "feature"], ["sample", "feature"], ["S", "F"], ["obs", "cell"]])),
            "kfrac": draw(st.sampled_from([1.0, 1.0, 0.5, 0.2])), "nb": draw(st.integers(1, 8)), "nb_big": draw(st.integers(9, 50)),
            "seed": draw(st.integers(0, 2**31 - 1)), "bseed": draw(st.sampled_from([0, 1, 7, 2**31 - 1, 123456])),
            "refit": draw(st.integers(0, 2)) == 0}


class Recorder:
    """Binds a recording EOF subclass into xeofs.validation.bootstrapper for one case."""

    def __init__(self):
        import xeofs.validation.bootstrapper as B

        self.B = B
        self.orig = B.EOF
        self.mats = []
        rec = self

        class RecordingEOF(self.orig):
            def fit(self, X, dim, weights=None):
                rec.mats.append(np.asarray(X.transpose(dim if isinstance(dim, str) else dim[0], ...).values).copy())
                return super().fit(X, dim, weights)

        self.cls = RecordingEOF

    def __enter__(self):
        self.B.EOF = self.cls
        return self

    def __exit__(self, *a):
        self.B.EOF = self.orig


def run_case(desc, ctx):
    import os

    import xeofs as xe

    lay = desc["lay"]
    X, sdims = L.build(lay)
    for ev in L.classes(lay)[:3]:
        ctx.event(ev)
    names = list(desc["names"])
    dims_all = {d for it in (X if isinstance(X, list) else [X]) for d in it.dims}
    if names[0] in dims_all or names[1] in dims_all:
        names = ["S_", "F_"]
    ctx.event("names=" + ("default" if names == ["sample", "feature"] else "custom"))
    nb = desc["nb_big"] if os.environ.get("VERIF_TIER", "quick") == "thorough" and desc["seed"] % 4 == 0 else desc["nb"]
    ctx.nontrivial(nb >= 2)
    disc = dict(custom_names=names != ["sample", "feature"], standardize=desc["standardize"])
    w = None
    if desc["weights"]:
        from vlib.cases import weights_like
        w = weights_like(X, sdims, desc["seed"] + 3)
    n, p = L.n_samples(lay), L.n_features(lay)
    rank = min(n - 1 if desc["center"] else n, p)
    k = max(1, int(round(desc["kfrac"] * rank)))
    exact = k > int(0.8 * min(n, p))
    ctx.event("member_solver=" + ("exact" if exact else "randomized"))
    model = xe.single.EOF(n_modes=k, center=desc["center"], standardize=desc["standardize"], sample_name=names[0], feature_name=names[1], solver="full")
    if isinstance(call(ctx, "model_fit_raises", model.fit, X, sdims, weights=w, disc=disc), Failed):
        return
    P = np.asarray(model.data["input_data"].transpose(names[0], names[1]).values)  # the model's own preprocessed samples
    N = P.shape[0]

    def run_boot(bst):
        with Recorder() as rec:
            bst.fit(model)
        return rec.mats

    bst = xe.validation.EOFBootstrapper(n_bootstraps=nb, seed=desc["bseed"])
    mats = call(ctx, "bootstrapper_fit_raises", run_boot, bst, disc=disc)
    if isinstance(mats, Failed):
        return
    if desc["refit"]:
        ctx.event("refit_same_object")
        mats2 = call(ctx, "bootstrapper_fit_raises", run_boot, bst, disc=dict(disc, refit=True))
        if isinstance(mats2, Failed):
            return
        same = len(mats2) == len(mats) and all(np.array_equal(a, b) for a, b in zip(mats, mats2))
        ctx.check(same, "refit_reproduces_resamples", "fitting the same bootstrapper again drew different resamples for the same seed", **disc)
        mats = mats2
    if not ctx.check(len(mats) == nb, "n_members", f"{len(mats)} member fits recorded for n_bootstraps={nb}", **disc):
        return
    ev = bst.explained_variance()
    comps = bst.data["components"]
    scores = bst.data["scores"]
    totv = bst.data["total_variance"]
    ok = ctx.check(ev.sizes.get("n") == nb and comps.sizes.get("n") == nb and scores.sizes.get("n") == nb and totv.sizes.get("n") == nb,
                   "member_dimension", f"sizes n: ev {ev.sizes.get('n')}, comps {comps.sizes.get('n')}, scores {scores.sizes.get('n')}", **disc)
    if not ok:
        return
    # public structure: model's own feature / sample structure plus mode and n
    pc = call(ctx, "components_raises", bst.components, disc=disc)
    ps = call(ctx, "scores_raises", bst.scores, disc=disc)
    if not isinstance(pc, Failed) and not isinstance(ps, Failed):
        from vlib.tab import items_of
        mc = model.components()
        for (i, v, a), (_, _, b) in zip(items_of(pc), items_of(mc)):
            ctx.check(set(a.dims) == set(b.dims) | {"n"}, "components_structure", f"item {i} var {v}: dims {a.dims} vs model {b.dims}+n", **disc)
        ctx.check(set(ps.dims) == set(sdims) | {"mode", "n"}, "scores_structure", f"scores dims {ps.dims}", **disc)

    EV = ev.transpose("n", "mode").values
    C = comps.transpose("n", names[1], "mode").values
    S = scores.transpose("n", names[0], "mode").values
    TV = totv.values
    MS = model.data["scores"].transpose(names[0], "mode").values
    rows = {P[i].tobytes(): i for i in range(N)}
    tol = 1e-8 if exact else 1e-4
    for b in range(nb):
        Mb = mats[b]
        d2 = dict(disc, exact=exact)
        # resample of the model's own preprocessed samples, with replacement
        if not ctx.check(Mb.shape == P.shape, "resample_shape", f"member {b}: matrix {Mb.shape} vs preprocessed data {P.shape}", **d2):
            return
        ok = all(Mb[i].tobytes() in rows for i in range(N))
        if not ctx.check(ok, "resample_rows_are_model_samples", f"member {b}: a row of the resample is not a row of the model's preprocessed data", **d2):
            return
        # reference EOF of the resample
        Mc = Mb - Mb.mean(0)
        U, s, Vh = np.linalg.svd(Mc, full_matrices=False)
        lam = s**2 / (N - 1)
        tot = lam.sum()
        gap_ok = exact or (k < len(s) and s[k] / max(s[k - 1], 1e-300) <= 0.3)
        if gap_ok:
            e = relerr(EV[b], lam[:k], scale=lam[0] if lam[0] > 0 else 1.0)
            ctx.check(e <= tol, "member_explained_variance", f"member {b}: explained variance differs from the EOF of its resample (rel err {e:.3g})", **d2)
        ctx.check(np.all(EV[b] >= -1e-12) and np.all(np.diff(EV[b]) <= 1e-10 * max(EV[b].max(), 1e-300)), "member_variance_order", f"member {b}: {EV[b]}", **d2)
        ctx.check(EV[b].sum() <= TV[b] * (1 + 1e-9) + 1e-300, "member_variance_le_total", f"member {b}: sum {EV[b].sum()} > total {TV[b]}", **d2)
        ctx.check(abs(TV[b] - tot) <= 1e-9 * max(tot, 1e-300), "member_total_variance", f"member {b}: total variance {TV[b]} vs {tot}", **d2)
        G = C[b].T @ C[b]
        e = float(np.abs(G - np.eye(k)).max())
        ctx.check(e <= 1e-8, "member_components_orthonormal", f"member {b}: |V^T V - I| = {e:.3g}", **d2)
        # scores are the projection of the original samples (centred with the resample mean)
        D = S[b] - P @ C[b]
        e = float(np.abs(D - D.mean(0, keepdims=True)).max()) / (float(np.abs(S[b]).max()) or 1.0)
        ctx.check(e <= 1e-8, "member_scores_are_projection", f"member {b}: scores - original samples x components is not constant over samples ({e:.3g})", **d2)
        e = float(np.abs(D.mean(0) + Mb.mean(0) @ C[b]).max()) / (float(np.abs(S[b]).max()) or 1.0)
        ctx.check(e <= 1e-8, "member_scores_centred_by_resample_mean", f"member {b}: offset is not -mean(resample) x components ({e:.3g})", **d2)
        # leading subspace agrees with the reference (exact solver, separated spectrum)
        if exact and k < len(s) and (s[k - 1] - s[k]) > 1e-6 * s[0] or (exact and k == len(s)):
            Pref = Vh[:k].T @ Vh[:k]
            e = float(np.abs(C[b] @ C[b].T - Pref).max())
            ctx.check(e <= 1e-7, "member_subspace", f"member {b}: component subspace differs from the EOF of its resample ({e:.3g})", **d2)
        # sign alignment with the model's modes
        for m_ in range(k):
            a_, b_ = S[b][:, m_], MS[:, m_]
            if np.std(a_) > 1e-12 * (np.abs(a_).max() + 1e-300) and np.std(b_) > 0:
                c_ = np.mean(a_ * b_) / (np.std(a_) * np.std(b_))
                ctx.check(c_ >= -1e-9, "member_sign_alignment", f"member {b} mode {m_ + 1}: mean product with the model's mode is {c_:.3g} < 0", **d2)
    # with replacement: a resample of N >= 10 rows without any repeated row has probability N!/N^N <= 3.7e-4;
    # asserted only for >= 3 members so that a false alarm has probability < 1e-10
    if nb >= 3 and N >= 10:
        def has_repeat(Mb):
            return len({Mb[i].tobytes() for i in range(N)}) < N
        ctx.check(any(has_repeat(Mb) for Mb in mats), "resample_with_replacement", f"none of {nb} resamples of {N} samples repeats a sample", **disc)
    # reproducibility: same seed -> same resamples and (to solver accuracy) same members; another seed -> another resample
    bst2 = xe.validation.EOFBootstrapper(n_bootstraps=nb, seed=desc["bseed"])
    mats_b = call(ctx, "bootstrapper_fit_raises", run_boot, bst2, disc=disc)
    if not isinstance(mats_b, Failed):
        same = len(mats_b) == len(mats) and all(np.array_equal(a, b) for a, b in zip(mats, mats_b))
        ctx.check(same, "same_seed_same_resamples", "two bootstrappers with the same seed drew different resamples", **disc)
        e = relerr(bst2.explained_variance().transpose("n", "mode").values, EV, scale=float(np.abs(EV).max()) or 1.0)
        ctx.check(e <= (1e-9 if exact else 1e-3), "same_seed_same_members", f"member variances differ by {e:.3g} for the same seed", **disc)
    bst3 = xe.validation.EOFBootstrapper(n_bootstraps=nb, seed=desc["bseed"] + 1)
    mats_c = call(ctx, "bootstrapper_fit_raises", run_boot, bst3, disc=disc)
    if not isinstance(mats_c, Failed) and N >= 4:
        differ = any(not np.array_equal(a, b) for a, b in zip(mats, mats_c))
        ctx.check(differ, "other_seed_other_resamples", "a different seed reproduced exactly the same resamples", **disc)
