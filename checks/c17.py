"""C17 — unusable input is rejected with an error, never answered with numbers."""

from __future__ import annotations

import itertools

import numpy as np
import xarray as xr
from hypothesis import strategies as st

from vlib import cases, layouts as L, models as M
from vlib.util import Failed, call, must_raise, quiet

ID = "C17"
LEVEL = "fault_enumeration"
RULE = (
    "Hypothesis draws a fitted model (EOF, POP, EOFRotator, CPCCA, MCA, CPCCARotator, multi.CCA) on a generated layout and ONE fault "
    "from a catalogue applied to an otherwise valid call (construction / fit / transform / inverse_transform); the thorough tier "
    "enumerates catalogue x class x container on fixed layouts. The unmutated call must succeed (control), the mutated call must raise. "
    "Calls the property declares valid (alpha > 1, additional Dataset variables, score arrays with additional dims, feature labels in "
    "another order) are generated as controls that must NOT be refused. Non-trivial: every mutated call; distinct = (fault, class, container, layout)."
)
ASSUMPTIONS = [
    "'rejected' means any exception; a returned value is the violation",
    "a fault is only applied where it is a fault: e.g. n_modes=0.5 is a valid variance fraction and is not in the catalogue",
]
TIERS = {"quick": (8, 60), "thorough": (16, 400)}
CASE_TIMEOUT = 300

CLASSES = ["EOF", "POP", "EOFRotator", "CPCCA", "MCA", "CPCCARotator", "multi.CCA"]
FIT_FAULTS = ["type_ndarray", "type_list_ndarray", "type_none", "type_scalar", "dim_unknown", "dim_empty", "dim_all", "n_modes_0", "n_modes_neg",
              "n_modes_1.5", "n_modes_str", "n_modes_rank+1", "n_modes_0.0", "n_modes_nan", "solver_unknown", "alpha_negative", "sample_count_mismatch",
              "weights_ndarray"]
TRANSFORM_FAULTS = ["t_type_ndarray", "t_type_none", "t_missing_dim", "t_extra_dim", "t_renamed_dim", "t_shifted_coord", "t_permuted_new_label",
                    "t_dropped_variable", "t_list_length", "t_multiindex_labels", "t_no_argument"]
INVERSE_FAULTS = ["i_unknown_mode", "i_unknown_mode_scalar"]
CONTROLS = ["c_alpha_gt1", "c_extra_variable", "c_scores_extra_dim", "c_reordered_labels"]
ALL = FIT_FAULTS + TRANSFORM_FAULTS + INVERSE_FAULTS + CONTROLS
# preprocessing variants the structural transform faults are crossed with: [center, standardize, weights in none / full / partial (1-D along
# the first feature dimension of every array, the way latitude weights are usually given)]
PP_VARIANTS = [[True, False, "partial"], [False, False, "none"], [False, True, "none"], [False, False, "partial"], [True, True, "full"], [False, True, "partial"]]
STRUCTURAL = ["t_missing_dim", "t_extra_dim", "t_renamed_dim", "t_shifted_coord", "t_permuted_new_label", "t_dropped_variable", "t_multiindex_labels"]


@st.composite
def strategy(draw, cls=None):
    cls = cls or draw(st.sampled_from(CLASSES))  # (the runner stratifies: every shard runs its slice of CLASSES, one class at a time)
    fault = draw(st.sampled_from(ALL))
    d = draw(cases.model_case([cls if cls != "multi.CCA" else "MCARotator"], max_sd=2, max_fd=2, min_samples=10, allow_weights=False, allow_coslat=False,
                              powers=(1,)))
    if cls == "multi.CCA":  # (MCARotator sizing guarantees >= 2 features per view) -> plain two-view spec
        d["spec"] = {"cls": "MCA", "solver": "full", "random_state": 1, "standardize": False, "use_coslat": False, "alpha": [1.0, 1.0],
                     "use_pca": [False, False], "n_pca_modes": ["all", "all"], "irr": 1.0, "n_modes": 2, "_pp": d["spec"]["_pp"]}
    d["cls"] = cls
    d["fault"] = fault
    d["pick"] = draw(st.integers(0, 10_000))
    d["pp"] = draw(st.one_of(st.none(), st.sampled_from(PP_VARIANTS)))
    return d


def _fixed_case(cls, container, variant):
    skind = ["range", "datetime", "multi"][variant % 3]
    fk = ["float", "str", "multi"][variant % 3]
    sd = [{"name": "time", "size": 9, "kind": skind, "lseed": 3}]
    if variant == 1:
        sd.append({"name": "run", "size": 2, "kind": "range", "lseed": 4})

    def lay(shift):
        pool = [{"name": "lat", "size": 3, "kind": fk, "lseed": 5 + shift}, {"name": "lon", "size": 2, "kind": "int_unsorted", "lseed": 6 + shift}]
        if container == "da":
            items = [{"type": "da", "fpool": pool, "vars": [{"name": "field", "fd": [0, 1], "oseed": variant}]}]
        elif container == "ds":
            items = [{"type": "ds", "fpool": pool, "vars": [{"name": "sst", "fd": [0, 1], "oseed": variant}, {"name": "t2m", "fd": [0], "oseed": 1}]}]
        else:
            items = [{"type": "da", "fpool": pool, "vars": [{"name": None, "fd": [0, 1], "oseed": variant}]},
                     {"type": "da", "fpool": pool[:1], "vars": [{"name": "b", "fd": [0], "oseed": 2}]}]
        return {"container": container, "sdims": sd, "items": items, "extra_coords": False, "seed": 40 + shift + variant}

    fam_cls = cls if cls != "multi.CCA" else "MCA"
    spec = {"cls": fam_cls, "solver": "full", "random_state": 1, "standardize": False, "use_coslat": False}
    lays = [lay(0)]
    if M.family(fam_cls) == "cross":
        lays.append(lay(10))
        spec.update(alpha=[0.5, 1.0] if "CPCCA" in fam_cls else [1.0, 1.0], use_pca=[False, False], n_pca_modes=["all", "all"], irr=1.0, n_modes=2, _pp=[6, 6])
    elif fam_cls == "POP":
        spec.update(center=True, use_pca=True, n_pca_modes=3, n_modes=3)
    else:
        spec.update(center=True, n_modes=2)
    if M.is_rotator(fam_cls):
        spec["rot"] = {"n_modes": 2, "power": 1}
    return {"cls": cls, "lays": lays, "spec": spec, "names": ["sample", "feature"], "weights": False}


def extra_cases(tier):
    if tier != "thorough":
        # quick: every class x fault pair once, rotating container and layout variant
        for i, (cls, fault) in enumerate(itertools.product(CLASSES, ALL)):
            d = _fixed_case(cls, ("da", "ds", "list")[i % 3], (i // 3) % 3)
            d["fault"] = fault
            d["pick"] = i
            yield d
        for i, (cls, fault, pp) in enumerate(itertools.product(CLASSES, STRUCTURAL, PP_VARIANTS)):
            d = _fixed_case(cls, ("da", "ds", "list")[i % 3], (i // 3) % 3)
            d.update(fault=fault, pick=i // 7, pp=pp)
            yield d
        return
    for cls, container, variant, fault in itertools.product(CLASSES, ("da", "ds", "list"), (0, 1, 2), ALL):
        d = _fixed_case(cls, container, variant)
        d["fault"] = fault
        d["pick"] = variant
        yield d
        if fault in STRUCTURAL:
            for pp in PP_VARIANTS:
                yield dict(d, pp=pp)


# --------------------------------------------------------------------------------------------
class Model:
    """Thin wrapper giving every class the same fit/transform/inverse_transform entry points."""

    def __init__(self, desc, spec_override=None, ctor_override=None):
        import xeofs as xe

        self.cls = desc["cls"]
        self.multi = self.cls == "multi.CCA"
        self.desc = desc
        spec = dict(desc["spec"])
        spec.update(spec_override or {})
        if self.multi:
            kw = dict(n_modes=spec.get("n_modes", 2), pca=False)
            kw.update(ctor_override or {})
            self.m = xe.multi.CCA(**kw)
            self.fam = "multi"
        else:
            if M.family(spec["cls"]) == "cross":
                spec["n_pca_modes"] = list(spec["n_pca_modes"])
            if ctor_override:
                spec = dict(spec, **ctor_override)
            self.ad = M.Adapter(spec, names=tuple(desc["_names"]))
            self.fam = self.ad.fam

    def fit(self, data, dim, weights=None):
        if self.multi:
            self.m.fit(list(data), dim)
            return self
        self.ad.fit(data, dim, weights)
        return self

    def transform(self, data):
        if self.multi:
            return self.m.transform(list(data))
        return self.ad.transform(data)

    def scores(self):
        return list(self.m.scores()) if self.multi else self.ad.scores()

    def inverse_transform(self, scores):
        if self.multi:
            raise NotImplementedError
        return self.ad.inverse_transform(scores)


def first_da(obj):
    it = obj[0] if isinstance(obj, list) else obj
    return it[list(it.data_vars)[0]] if isinstance(it, xr.Dataset) else it


def map_first(obj, fn):
    """Apply fn to the first item of a DataObject (list -> first element)."""
    if isinstance(obj, list):
        return [fn(obj[0])] + list(obj[1:])
    return fn(obj)


partial_weights = cases.partial_weights


def run_case(desc, ctx):
    pp = desc.get("pp")
    W = None
    if pp and desc["cls"] != "multi.CCA":
        spec = dict(desc["spec"], standardize=pp[1])
        if M.family(spec["cls"]) == "single":
            spec["center"] = pp[0]  # (cross-set models always centre)
        desc = dict(desc, spec=spec, weights=pp[2] == "full")
        ctx.event(f"pp=center:{pp[0]},std:{pp[1]},weights:{pp[2]}")
    case = cases.build_case(dict(desc, cls=desc["spec"]["cls"]))
    data, sdims = case["data"], case["sdims"]
    if pp and desc["cls"] != "multi.CCA":
        W = case["weights"] if pp[2] == "full" else [partial_weights(o, sdims) for o in data] if pp[2] == "partial" else None
    desc = dict(desc, _names=case["names"])
    cls, fault = desc["cls"], desc["fault"]
    cont = desc["lays"][0]["container"]
    ctx.event(f"cls={cls}")
    ctx.event(f"fault={fault}")
    ctx.event(f"container={cont}")
    disc = dict(cls=cls, fault=fault, container=cont)
    multi = cls == "multi.CCA"
    cross = M.family(desc["spec"]["cls"]) == "cross" and not multi
    nfields = 2 if (cross or multi) else 1
    X0 = data[0]
    fd0 = [d for d in first_da(X0).dims if d not in sdims]
    refuse = (RuntimeError,)
    ri = lambda e: "did not converge" in str(e)  # noqa: E731

    def control_fit():
        m = Model(desc)
        r = call(ctx, "control_fit_raises", m.fit, data, sdims, W, disc=disc, refuse=refuse, refuse_if=ri)
        return None if isinstance(r, Failed) else m

    # ------------------------------------------------------------------ faults at construction / fit
    if fault in FIT_FAULTS:
        ctx.nontrivial(True)
        bad_data, bad_dim, so, co = list(data), sdims, None, None
        if fault == "type_ndarray":
            bad_data[0] = np.asarray(first_da(X0).values)
        elif fault == "type_list_ndarray":
            bad_data[0] = [np.asarray(first_da(X0).values)]
        elif fault == "type_none":
            bad_data[0] = None
        elif fault == "type_scalar":
            bad_data[0] = 3.0
        elif fault == "dim_unknown":
            bad_dim = ["no_such_dim"]
        elif fault == "dim_empty":
            bad_dim = []
        elif fault == "dim_all":
            bad_dim = list(first_da(X0).dims)
            if cont != "da":
                ctx.refused("not applicable: dim_all needs a single DataArray")
        elif fault.startswith("n_modes_"):
            v = {"n_modes_0": 0, "n_modes_neg": -1, "n_modes_1.5": 1.5, "n_modes_str": "3", "n_modes_0.0": 0.0, "n_modes_nan": float("nan"),
                 # (multi.CCA solves a regularised generalised eigenproblem over all features: its documented bound is the
                 #  smallest feature count of the views, not the number of samples)
                 #  cross-set models without PCA decompose the p1 x p2 cross-covariance matrix: the bound is min(p1, p2))
                 "n_modes_rank+1": (min(L.n_features(l) for l in desc["lays"]) if (multi or cross) else
                                    min(L.n_samples(desc["lays"][0]), *[L.n_features(l) for l in desc["lays"]])) + 1}[fault]
            if multi and fault in ("n_modes_1.5", "n_modes_0.0", "n_modes_nan", "n_modes_str"):
                ctx.refused("not applicable: multi.CCA documents integer n_modes only")
            if cls == "POP":
                ctx.refused("not applicable: POP's mode count is given by n_pca_modes")
            if M.is_rotator(desc["spec"]["cls"]):
                so = {"n_modes": v}
            else:
                so = {"n_modes": v}
        elif fault == "solver_unknown":
            if multi:
                ctx.refused("not applicable: multi.CCA has no solver option")
            so = {"solver": "no_such_solver"}
        elif fault == "alpha_negative":
            if desc["spec"]["cls"] not in ("CPCCA", "CPCCARotator"):
                ctx.refused("not applicable: alpha is fixed for this class")
            so = {"alpha": [-0.5, 1.0]}
        elif fault == "sample_count_mismatch":
            if nfields < 2:
                ctx.refused("not applicable: single-set model")
            d0 = sdims[0]
            bad_data[1] = L.map_items(data[1], lambda o: o.isel({d0: slice(0, o.sizes[d0] - 1)}))
        elif fault == "weights_ndarray":
            if multi:
                ctx.refused("not applicable: multi.CCA takes no weights")

        def attempt():
            m = Model(desc, spec_override=so)
            if fault == "weights_ndarray":
                w = [np.ones(3)] * nfields
                return m.fit(bad_data, bad_dim, w)
            return m.fit(bad_data, bad_dim)

        if control_fit() is None:
            return
        must_raise(ctx, "invalid_fit_answered", attempt, disc=disc)
        return

    m = control_fit()
    if m is None:
        return

    # ------------------------------------------------------------------ controls: valid calls must not be refused
    if fault in CONTROLS:
        ctx.event("control")
        if fault == "c_alpha_gt1":
            if desc["spec"]["cls"] not in ("CPCCA", "CPCCARotator"):
                ctx.refused("not applicable: alpha is fixed for this class")
            call(ctx, "valid_call_refused", lambda: Model(desc, spec_override={"alpha": [1.5, 2.0]}).fit(data, sdims), disc=disc, refuse=refuse, refuse_if=ri)
        elif fault == "c_extra_variable":
            if not isinstance(X0, xr.Dataset):
                ctx.refused("not applicable: needs a Dataset")
            new = list(data)
            new[0] = X0.assign(extra_variable=first_da(X0) * 2.0)
            call(ctx, "valid_call_refused", m.transform, new, disc=disc)
        elif fault == "c_scores_extra_dim":
            if multi:
                ctx.refused("not applicable: no inverse_transform")
            sc = m.scores()
            sc2 = [s.expand_dims(member=[0, 1]) for s in sc]
            call(ctx, "valid_call_refused", m.inverse_transform, sc2, disc=disc)
        elif fault == "c_reordered_labels":
            fdc = [d for d in fd0 if first_da(X0).sizes[d] >= 2]
            if not fdc:
                ctx.refused("not applicable: no feature dim with >= 2 labels")
            d_ = fdc[desc["pick"] % len(fdc)]
            if isinstance(first_da(X0).indexes[d_], __import__("pandas").MultiIndex):
                ctx.event("reordered_multiindex")
            new = list(data)
            new[0] = map_first(X0, lambda o: o.isel({d_: slice(None, None, -1)}))
            out = call(ctx, "valid_call_refused", m.transform, new, disc=disc)
            ref = call(ctx, "control_transform_raises", m.transform, data, disc=disc)
            if not isinstance(out, Failed) and not isinstance(ref, Failed):
                for a, b in zip(ref, out):
                    e = float(abs(a - b).max())
                    sc = float(abs(a).max()) or 1.0
                    ctx.check(e <= 1e-8 * sc, "reordered_labels_change_result", f"same labels in another order changed the projection by {e / sc:.3g}", **disc)
        return

    # ------------------------------------------------------------------ faults at transform
    if fault in TRANSFORM_FAULTS:
        ctx.nontrivial(True)
        ok = call(ctx, "control_transform_raises", m.transform, data, disc=disc)
        if isinstance(ok, Failed):
            return
        new = list(data)
        if fault == "t_type_ndarray":
            new[0] = np.asarray(first_da(X0).values)
        elif fault == "t_type_none":
            if cross:
                new = [None, None]
            else:
                new[0] = None
        elif fault == "t_no_argument":
            if not cross:
                ctx.refused("not applicable: single/multi-set transform has a required argument")
            must_raise(ctx, "invalid_transform_answered", m.ad.model.transform, disc=disc)
            return
        elif fault == "t_missing_dim":
            cand = fd0[1:] if (pp and pp[2] == "partial" and len(fd0) > 1) else fd0  # (a dimension the partial weights do not span)
            d_ = cand[desc["pick"] % len(cand)]
            new[0] = map_first(X0, lambda o: o.isel({d_: 0}, drop=True) if d_ in o.dims else o)
        elif fault == "t_extra_dim":
            new[0] = map_first(X0, lambda o: o.expand_dims(extra_dim=[0, 1]))
        elif fault == "t_renamed_dim":
            d_ = fd0[desc["pick"] % len(fd0)]
            new[0] = map_first(X0, lambda o: o.rename({d_: d_ + "_renamed"}) if d_ in o.dims else o)
        elif fault in ("t_shifted_coord", "t_permuted_new_label"):
            import pandas as pd
            cand = [d for d in fd0 if not isinstance(first_da(X0).indexes[d], pd.MultiIndex) and first_da(X0).sizes[d] >= (1 if fault == "t_shifted_coord" else 2)]
            if not cand:
                ctx.refused("not applicable: no plain feature dim")
            d_ = cand[desc["pick"] % len(cand)]

            def shift(o):
                if d_ not in o.dims:
                    return o
                v = o[d_].values
                if fault == "t_permuted_new_label":
                    v = v[::-1].copy()
                if v.dtype.kind in "iuf":
                    v2 = v.copy()
                    v2[0 if fault == "t_permuted_new_label" else slice(None)] = v2[0 if fault == "t_permuted_new_label" else slice(None)] + 1000
                elif v.dtype.kind == "M":
                    v2 = v.copy()
                    v2[0 if fault == "t_permuted_new_label" else slice(None)] = v2[0 if fault == "t_permuted_new_label" else slice(None)] + np.timedelta64(500, "D")
                else:
                    v2 = v.astype(object).copy()
                    if fault == "t_permuted_new_label":
                        v2[0] = str(v2[0]) + "_new"
                    else:
                        v2 = np.array([str(x) + "_new" for x in v2], dtype=object)
                    v2 = v2.astype(str)
                return o.assign_coords({d_: v2})
            new[0] = map_first(X0, shift)
        elif fault == "t_multiindex_labels":
            import pandas as pd
            cand = [d for d in fd0 if isinstance(first_da(X0).indexes[d], pd.MultiIndex)]
            if not cand:
                ctx.refused("not applicable: no MultiIndex feature dim")
            d_ = cand[0]

            def relabel(o):
                if d_ not in o.dims:
                    return o
                idx = o.indexes[d_]
                new_idx = pd.MultiIndex.from_arrays([idx.get_level_values(0) + 1000, idx.get_level_values(1)], names=idx.names)
                o2 = o.drop_vars([d_, *idx.names])
                return o2.assign_coords(xr.Coordinates.from_pandas_multiindex(new_idx, d_))
            new[0] = map_first(X0, relabel)
        elif fault == "t_dropped_variable":
            it = X0[0] if isinstance(X0, list) else X0
            if not isinstance(it, xr.Dataset) or len(it.data_vars) < 2:
                ctx.refused("not applicable: needs a Dataset with >= 2 variables")
            new[0] = map_first(X0, lambda o: o.drop_vars(list(o.data_vars)[-1]) if isinstance(o, xr.Dataset) else o)
        elif fault == "t_list_length":
            if not isinstance(X0, list):
                new[0] = [X0, X0]
            else:
                new[0] = X0 + [X0[0]]
        must_raise(ctx, "invalid_transform_answered", m.transform, new, disc=disc)
        return

    # ------------------------------------------------------------------ faults at inverse_transform
    if fault in INVERSE_FAULTS:
        if multi:
            ctx.refused("not applicable: no inverse_transform")
        ctx.nontrivial(True)
        sc = m.scores()
        ok = call(ctx, "control_inverse_raises", m.inverse_transform, sc, disc=disc)
        if isinstance(ok, Failed):
            return
        k = sc[0].sizes["mode"]
        if fault == "i_unknown_mode":
            bad = [s.assign_coords(mode=list(range(1, k)) + [k + 7]) for s in sc]
        else:
            bad = [s.isel(mode=0).assign_coords(mode=k + 7) for s in sc]
        must_raise(ctx, "unknown_mode_answered", m.inverse_transform, bad, disc=disc)
