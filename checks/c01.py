"""C01 — EOF-type modes are the exact eigen-decomposition of the preprocessed data."""

from __future__ import annotations

import numpy as np
import xarray as xr
from hypothesis import strategies as st

from vlib import gen, oracle
from vlib.tab import Table, table_from_obj
from vlib.util import Failed, call, relerr

ID = "C01"
RULE = (
    "Hypothesis draws (class in EOF/ComplexEOF/HilbertEOF/ExtendedEOF, n, p or lat x lon grid, spectrum family, "
    "scale 1e-8..1e8, offset, center/standardize/use_coslat/weights, n_modes, solver, seeds); the matrix is "
    "U diag(s) V^H built from the seeds. Non-trivial: (>=2 features or >=2 modes) and non-zero variance. "
    "distinct = distinct descriptor hashes among non-trivial cases."
)
ASSUMPTIONS = [
    "numpy/LAPACK eigvalsh and svd are the trusted reference",
    "Hilbert reference: analytic signal via numpy FFT, exponential padding as documented, mean removed afterwards",
    "ExtendedEOF reference: centred rank-k PCA reconstruction, delayed copies tau apart, re-centred",
    "non-exact solvers: exact comparison where the random range finder spans the full row/column space (real data, k + 10 oversamples >= min(n,p)); "
    "rtol 1e-6 where the method is accurate by its own error bound ((s_{k+11}/s_k)^9 <= 1e-8 for the real randomised solver, s_{k+1}/s_k <= 0.05 for "
    "the complex svds/lobpcg path); otherwise only one-sided bounds (sum of the top-k variances <= exact)",
    "scipy svds refuses k = min(shape) for complex data with solver='randomized' (counted as refusal)",
]
TIERS = {"quick": (4, 250), "thorough": (16, 1300)}

CLASSES = ["EOF", "ComplexEOF", "HilbertEOF", "ExtendedEOF"]


@st.composite
def strategy(draw, cls=None):
    cls = cls or draw(st.sampled_from(CLASSES))  # (the runner stratifies: every shard runs its slice of CLASSES, one class at a time)
    grid = draw(st.booleans())
    big = draw(st.integers(0, 39)) == 0  # cross the 500-row solver switch now and then
    if grid:
        nlat, nlon = draw(st.integers(1, 4)), draw(st.integers(1, 3))
        p = nlat * nlon
    else:
        nlat = nlon = 0
        p = draw(st.integers(1, 9))
    n = 520 if big else draw(st.integers(2, 14))
    d = {
        "cls": cls, "n": n, "p": p, "grid": grid, "nlat": nlat, "nlon": nlon,
        "kind": draw(st.sampled_from(gen.SPECTRA)),
        "scale_exp": draw(st.sampled_from([0, 0, 0, -8, -4, 3, 8])),
        "ratio": draw(st.sampled_from([0.5, 0.9, 0.1])),
        "offset": draw(st.booleans()),
        "cplx": cls == "ComplexEOF" and draw(st.integers(0, 4)) > 0,
        "center": draw(st.integers(0, 3)) > 0,
        "standardize": draw(st.integers(0, 3)) == 0,
        "use_coslat": grid and draw(st.booleans()),
        "weights": draw(st.integers(0, 2)) == 0,
        "solver": draw(st.sampled_from(["full", "full", "auto", "randomized"])),
        "kfrac": draw(st.floats(0, 1)),
        "seed": draw(gen.seeds),
    }
    if cls == "HilbertEOF":
        d["padding"] = draw(st.sampled_from(["exp", None]))
        d["decay"] = draw(st.sampled_from([0.05, 0.2, 0.5]))
    if cls == "ExtendedEOF":
        d["tau"] = draw(st.integers(1, 3))
        d["embedding"] = draw(st.integers(2, 4))
        d["n_pca"] = draw(st.sampled_from([None, None, 1, 2, 3]))
        if not big:
            d["n"] = max(d["n"], (d["embedding"] - 1) * d["tau"] + 3)
    return d


def build(desc):
    rng = np.random.default_rng(desc["seed"] + 7)
    M, s = gen.matrix(desc["seed"], desc["n"], desc["p"], desc["kind"], desc["scale_exp"], desc["cplx"],
                      desc["ratio"], desc["offset"])
    n = desc["n"]
    if desc["grid"]:
        lats = np.sort(rng.uniform(-90, 90, desc["nlat"]))
        if desc["nlat"] >= 2 and rng.random() < 0.3:
            lats[0], lats[-1] = -90.0, 90.0
        lons = np.arange(desc["nlon"]) * 10.0
        da = xr.DataArray(M.reshape(n, desc["nlat"], desc["nlon"]), dims=("time", "lat", "lon"),
                          coords={"time": np.arange(n), "lat": lats, "lon": lons})
        fdims = ("lat", "lon")
    else:
        da = xr.DataArray(M, dims=("time", "x"), coords={"time": np.arange(n), "x": np.arange(desc["p"]) * 2 + 1})
        fdims = ("x",)
    w = None
    if desc["weights"]:
        w = xr.DataArray(rng.uniform(0.2, 3.0, [da.sizes[d] for d in fdims]), dims=fdims,
                         coords={d: da.coords[d] for d in fdims})
    return da, w


def make_model(desc, k):
    import xeofs as xe

    kw = dict(n_modes=k, center=desc["center"], standardize=desc["standardize"], use_coslat=desc["use_coslat"],
              solver=desc["solver"], random_state=desc["seed"] % 1000)
    c = desc["cls"]
    if c == "EOF":
        return xe.single.EOF(**kw)
    if c == "ComplexEOF":
        return xe.single.ComplexEOF(**kw)
    if c == "HilbertEOF":
        return xe.single.HilbertEOF(padding=desc["padding"], decay_factor=desc["decay"], **kw)
    if c == "ExtendedEOF":
        return xe.single.ExtendedEOF(tau=desc["tau"], embedding=desc["embedding"], n_pca_modes=desc["n_pca"], **kw)
    raise ValueError(c)


def reference_matrix(desc, da, w):
    """-> Table of the matrix the property says is decomposed (rows: sample keys; cols: feature keys,
    for ExtendedEOF (embedding lag, feature key))."""
    T = table_from_obj(da, ["time"])
    wd = None
    if w is not None:
        wt = table_from_obj(w, [])
        wd = {c: wt.M[0, j] for j, c in enumerate(wt.cols)}
    P = oracle.preprocess(T, desc["center"], desc["standardize"], desc["use_coslat"], wd)
    c = desc["cls"]
    if c == "HilbertEOF":
        return Table(P.rows, P.cols, oracle.analytic_signal(P.M.real, desc["padding"], desc["decay"])), None
    if c == "ExtendedEOF":
        X = P.M - P.M.mean(axis=0, keepdims=True) if desc["n_pca"] else P.M
        gap_ok = True
        if desc["n_pca"]:
            k = desc["n_pca"]
            V, s = oracle.pca_ref(X, k)
            if k < len(s):
                gap_ok = (s[k - 1] - s[k]) > 1e-6 * s[0]
            X = X @ V @ V.conj().T
        blocks = oracle.delay_embed(X, desc["tau"], desc["embedding"])
        rows = P.rows[: blocks[0].shape[0]]
        cols = [(ci[0], ci[1], ci[2] | {("embedding", e * desc["tau"])}) for e in range(desc["embedding"]) for ci in P.cols]
        E = np.concatenate(blocks, axis=1)
        E = E - E.mean(axis=0, keepdims=True)
        return Table(rows, cols, E), gap_ok
    return P, None


def run_case(desc, ctx):
    da, w = build(desc)
    cls = desc["cls"]
    ctx.event(f"cls={cls}")
    ctx.event(f"solver={desc['solver']}")
    ctx.event(f"kind={desc['kind']}")
    R, pca_gap_ok = reference_matrix(desc, da, w)
    Mref = R.M
    n, p = Mref.shape
    rank = min(n, p)
    if desc["cls"] == "ExtendedEOF" and desc["n_pca"]:
        rank = min(n, desc["n_pca"] * desc["embedding"])  # xeofs decomposes the embedded PCs
    if desc["cls"] == "ExtendedEOF" and desc["n_pca"]:
        if desc["n_pca"] > min(desc["n"], desc["p"]):
            ctx.refused("eeof n_pca > rank (generator)")
        if not pca_gap_ok:
            ctx.refused("eeof pca without gap (generator)")
    k = 1 + int(desc["kfrac"] * (rank - 1) + 0.5) if rank > 1 else 1
    k = min(max(k, 1), rank)
    if n >= 500:
        k = min(k, 3)
    ctx.event("wide" if n < p else "tall")
    if p == 1:
        ctx.event("single_feature")
    if abs(desc["scale_exp"]) >= 4:
        ctx.event("extreme_scale")
    if n >= 500:
        ctx.event("n>=500")
    disc = dict(cls=cls, solver=desc["solver"])

    model = make_model(desc, k)
    refuse = (NotImplementedError,)
    if desc["cplx"] or cls == "HilbertEOF":
        refuse = (ValueError, NotImplementedError)
    fit = call(ctx, "fit_raises", model.fit, da, "time", weights=w, refuse=refuse,
               refuse_if=lambda e: "must be an integer satisfying" in str(e), disc=disc)
    if isinstance(fit, Failed):
        return

    lam_ref = oracle.eig_cov(Mref)  # descending, all min(n,p)
    s_ref = np.sqrt(lam_ref * (n - 1))
    tot = float(lam_ref.sum())
    ctx.nontrivial((p >= 2 or k >= 2) and tot > 0)
    s1 = s_ref[0] if s_ref[0] > 0 else 1.0

    # which accuracy applies
    exact_solver = desc["solver"] == "full" or (desc["solver"] == "auto" and n < 500 and k > int(0.8 * rank))
    iscomplex = np.iscomplexobj(Mref)
    full_range = (not iscomplex) and (k + 10 >= rank)  # randomized range finder spans everything
    # Accuracy of the non-exact solvers.  Real data: randomised range finder with 10 oversamples and >= 4 power iterations,
    # error ~ (s_{k+11}/s_k)^9 (Halko et al.); complex data: scipy svds/lobpcg without oversampling and a default
    # iteration cap, trusted only behind a wide gap after mode k.  Outside these regimes only one-sided bounds are asserted.
    sk = s_ref[k - 1]
    if iscomplex:
        decay = (s_ref[k] / sk) if (k < rank and sk > 0) else 0.0
        accurate = decay <= 0.05
    else:
        decay = (s_ref[k + 10] / sk) if (k + 10 < rank and sk > 0) else 0.0
        accurate = decay**9 <= 1e-8
    if exact_solver or full_range:
        rtol = 1e-9
    elif accurate and sk > 1e-3 * s1:
        rtol = 1e-6
    else:
        rtol = None  # only one-sided bounds
    ctx.event("acc=" + ("exact" if rtol == 1e-9 else "gap" if rtol else "weak"))

    ev = np.asarray(model.explained_variance().values, dtype=float)
    sv = np.asarray(model.singular_values().values, dtype=float)
    ctx.check(ev.shape == (k,), "n_modes_returned", f"{ev.shape} != ({k},)", **disc)
    if ev.shape != (k,):
        return
    ctx.check(np.all(np.diff(ev) <= 1e-12 * lam_ref[0] + 0) and np.all(ev >= -1e-300), "explained_variance_order",
              f"not descending/non-negative: {ev}", **disc)
    if rtol is not None:
        e = relerr(ev, lam_ref[:k], scale=lam_ref[0] if lam_ref[0] > 0 else 1.0)
        ctx.check(e <= rtol, "explained_variance_eq_eigs", f"rel err {e:.3g}; got {ev[:4]} ref {lam_ref[:4]}", **disc)
        e = relerr(sv**2 / (n - 1), lam_ref[:k], scale=lam_ref[0] if lam_ref[0] > 0 else 1.0)
        ctx.check(e <= rtol, "singular_values_eq_eigs", f"rel err {e:.3g}", **disc)
    else:
        ctx.check(ev.sum() <= lam_ref[:k].sum() * (1 + 1e-9) + 1e-300, "explained_variance_upper_bound",
                  f"{ev.sum()} > {lam_ref[:k].sum()}", **disc)
    e = relerr(sv**2 / (n - 1), ev, scale=lam_ref[0] if lam_ref[0] > 0 else 1.0)
    ctx.check(e <= 1e-12, "sv_vs_expvar", f"singular_values^2/(N-1) != explained_variance ({e:.3g})", **disc)

    if desc["center"] or cls == "ExtendedEOF":  # (ratios only with centring on, as stated; ExtendedEOF re-centres the embedded matrix itself)
        ratio = np.asarray(model.explained_variance_ratio().values, dtype=float)
        if tot > 0:
            e = relerr(ratio, ev / tot, scale=1.0)
            ctx.check(e <= 1e-9, "ratio_vs_total_variance", f"ratio {ratio[:3]} vs {(ev / tot)[:3]}", **disc)

    # label-wise tables of public results
    comps = call(ctx, "components_raises", model.components, disc=disc)
    scores = call(ctx, "scores_raises", model.scores, disc=disc)
    if isinstance(comps, Failed) or isinstance(scores, Failed):
        return
    Ct = table_from_obj(comps, ["mode"])  # rows: (mode,), cols: feature keys
    St = table_from_obj(scores, ["time"])  # rows: time, cols: {mode}
    try:
        V = Ct.at([(m,) for m in range(1, k + 1)], R.cols).T  # (p, k)
        S = St.at(R.rows, [(0, None, frozenset({("mode", m)})) for m in range(1, k + 1)])  # (n, k)
    except KeyError as err:
        ctx.violation("labels_missing", f"label {err} absent from components/scores", **disc)
        return
    G = V.conj().T @ V
    e = float(np.max(np.abs(G - np.eye(k))))
    ctx.check(e <= 1e-9, "components_orthonormal", f"|V^H V - I| = {e:.3g}", **disc)
    GS = S.conj().T @ S
    e = float(np.max(np.abs(GS - np.diag(sv**2)))) / s1**2
    ctx.check(e <= (1e-9 if rtol == 1e-9 else 1e-6), "scores_orthogonal_norms", f"|S^H S - diag(s^2)|/s1^2 = {e:.3g}", **disc)

    # Eckart–Young: the rank-k reconstruction attains the optimum sum_{i>k} sigma_i^2
    recon = S @ V.conj().T
    err2 = float(np.linalg.norm(Mref - recon) ** 2)
    opt2 = float(np.sum(s_ref[k:] ** 2))
    tol = (1e-9 if rtol == 1e-9 else 1e-6 if rtol else None)
    if tol is not None:
        ctx.check(abs(err2 - opt2) <= tol * s1**2 * max(1, rank), "eckart_young",
                  f"|M - S V^H|^2 = {err2:.6g}, optimum {opt2:.6g} (s1^2={s1**2:.3g})", **disc)
    else:
        ctx.check(err2 >= opt2 * (1 - 1e-9) - 1e-12 * s1**2, "eckart_young_lower", f"{err2} < optimum {opt2}", **disc)

    # the stored decomposed matrix is the documented one (Gram matrices are column-order free)
    if cls != "ExtendedEOF":
        X = np.asarray(model.data["input_data"].values)
        if X.shape == Mref.shape:
            e = relerr(X @ X.conj().T, Mref @ Mref.conj().T, scale=s1**2)
            ctx.check(e <= 1e-9, "input_data_matrix", f"Gram of stored input_data differs from reference ({e:.3g})", **disc)
        else:
            ctx.violation("input_data_matrix", f"shape {X.shape} != {Mref.shape}", **disc)
