"""C03 — full-mode inverse_transform restores the fitted data; T∘I = id; 'normalized' = per-mode norms."""

from __future__ import annotations

import numpy as np
import pandas as pd
import xarray as xr
from hypothesis import strategies as st

from vlib import cases, layouts as L, models as M
from vlib.tab import flatten_da, items_of, table_from_obj
from vlib.util import Failed, call, relerr

ID = "C03"
RULE = (
    "Hypothesis draws a class (EOF, ComplexEOF, HilbertEOF, EOF/ComplexEOF rotators, CPCCA/MCA/CCA/RDA, Complex and Hilbert "
    "variants) with all modes kept (n_modes = rank; PCA off, 'all', or keeping the whole rank of the centred data), a "
    "layout per field, preprocessing flags, weights, alpha in [0,1]^2, and an arbitrary score array (fresh sample "
    "coordinates, 1..3 samples per dim, subset of modes, scalar-mode selection). Non-trivial: >=2 modes and (a flag on, "
    "or alpha<1, or PCA on, or Dataset/list container)."
)
ASSUMPTIONS = [
    "reconstruction tolerance 1e-8 * max(1, cond^(1-alpha)) relative to the largest |input|, cond from the reference SVD",
    "cross-set field is compared only if its (PCA-reduced) feature count <= n_modes, as the property states",
    "Hilbert models: reconstruction only (they offer no transform)",
    "score arrays carry the training sample dimension names (with new labels) plus 'mode'",
]
TIERS = {"quick": (8, 120), "thorough": (16, 600)}

CLASSES = (["EOF", "EOF", "ComplexEOF", "HilbertEOF", "EOFRotator", "ComplexEOFRotator"] + M.CROSS + M.HILBERT_CROSS)


@st.composite
def strategy(draw, cls=None):
    cls = cls or draw(st.sampled_from(CLASSES))  # (the runner stratifies: every shard runs its slice of CLASSES, one class at a time)
    d = draw(cases.model_case([cls], full_modes=True, min_samples=6, powers=(1, 2)))
    if M.is_hilbert_cls(cls):
        d["spec"]["padding"] = draw(st.sampled_from(["exp", None]))
    s0 = d["lays"][0]["sdims"][0]
    if s0["name"] == "sample" and s0["kind"] == "multi":
        # a user MultiIndex dimension that carries the internal sample name is ambiguous for unseen score arrays
        s0["kind"] = "str"
    d["s_sizes"] = [draw(st.integers(1, 3)) for _ in d["lays"][0]["sdims"]]
    d["s_seed"] = draw(st.integers(0, 10_000))
    d["mode_pick"] = draw(st.integers(0, 10_000))
    return d


def arbitrary_scores(desc, sdims_spec, modes, cplx, which):
    rng = np.random.default_rng(desc["s_seed"] + which)
    dims, coords, shape = [], {}, []
    for spec, size in zip(sdims_spec, desc["s_sizes"]):
        lab = L.labels(spec["kind"], size, spec["lseed"] + 500, spec["name"])
        dims.append(spec["name"])
        if isinstance(lab, pd.MultiIndex):
            coords.update(xr.Coordinates.from_pandas_multiindex(lab, spec["name"]))
        else:
            coords[spec["name"]] = lab
        shape.append(size)
    k = len(modes)
    pick = np.random.default_rng(desc["mode_pick"]).permutation(k)[: max(1, (desc["mode_pick"] % k) + 1)]
    sub = sorted(int(modes[i]) for i in pick)
    vals = rng.standard_normal(shape + [len(sub)])
    if cplx:
        vals = vals + 1j * rng.standard_normal(shape + [len(sub)])
    return xr.DataArray(vals, dims=dims + ["mode"], coords=dict(coords, mode=sub)), sub


def run_case(desc, ctx):
    case = cases.build_case(desc)
    ad, data, sdims, w = case["adapter"], case["data"], case["sdims"], case["weights"]
    cls = desc["cls"]
    for ev in cases.case_events(desc):
        ctx.event(ev)
    sp = desc["spec"]
    alpha = M.cross_alpha(sp) if ad.fam == "cross" else (1.0, 1.0)
    disc = dict(cls=cls, alpha_lt1=bool(min(alpha) < 1), power=sp.get("rot", {}).get("power", 0))
    fit = call(ctx, "fit_raises", ad.fit, data, sdims, w, refuse=(RuntimeError,),
               refuse_if=lambda e: "did not converge" in str(e), disc=disc)
    if isinstance(fit, Failed):
        return
    k = ad.n_out_modes()
    flags_on = sp.get("standardize") or sp.get("use_coslat") or desc["weights"]
    ctx.nontrivial(k >= 2 and (flags_on or min(alpha) < 1 or (ad.fam == "cross" and any(sp["use_pca"])) or desc["lays"][0]["container"] != "da"))
    hilbert = M.is_hilbert_cls(cls)
    cplx = M.is_complex_cls(cls) or hilbert

    # ---------- (a) reconstruction from the model's own scores
    sc = call(ctx, "scores_raises", ad.scores, disc=disc)
    if isinstance(sc, Failed):
        return
    full_rot = (not M.is_rotator(cls)) or sp["rot"]["n_modes"] == sp["n_modes"]
    rec = call(ctx, "inverse_transform_raises", ad.inverse_transform, sc, disc=disc)
    if not isinstance(rec, Failed) and full_rot:
        for f in range(ad.n_fields):
            if ad.fam == "cross" and sp["_pp"][f] > sp["n_modes"]:
                ctx.event("field_not_exact_skipped")
                continue
            if ad.fam == "cross" and sp["use_pca"][f] and sp["n_pca_modes"][f] != "all":
                nn, pf = L.n_samples(desc["lays"][0]), L.n_features(desc["lays"][f])
                if sp["n_pca_modes"][f] < min(nn - 1, pf):
                    ctx.event("field_pca_truncated_skipped")
                    continue
            T = table_from_obj(data[f], sdims)
            scale = float(np.nanmax(np.abs(T.M)))
            # conditioning of the whitening for this field
            a = alpha[f] if ad.fam == "cross" else 1.0
            tol = 1e-8
            if a < 1:
                Mc = T.M - T.M.mean(axis=0, keepdims=True)
                s = np.linalg.svd(Mc, compute_uv=False)
                s = s[s > 1e-10 * s[0]]
                tol = 1e-8 * max(1.0, (s[0] / s[-1]) ** (1 - a))
            try:
                R = table_from_obj(rec[f], sdims)
                got = R.at(T.rows, T.cols)
            except (KeyError, ValueError) as err:
                ctx.violation("reconstruction_labels", f"field {f}: {type(err).__name__} {str(err)[:120]}", **disc)
                continue
            ref = T.M.real if (hilbert or not cplx) else T.M
            if hilbert:
                got = np.real(got)  # the data is the real part of the reconstructed analytic signal
            e = relerr(got, ref, scale=scale)
            ctx.check(e <= tol, "reconstruction_full_modes", f"field {f}: inverse_transform(scores()) != input (rel err {e:.3g}, tol {tol:.1g})",
                      **dict(disc, field=f, center=bool(sp.get("center", True))))

    # ---------- (c) normalized switches
    norms = ad.norms()
    scn = call(ctx, "scores_raises", ad.scores, True, disc=dict(disc, normalized=True))
    if not isinstance(scn, Failed):
        for f in range(ad.n_fields):
            nrm = np.asarray(norms[f].values, dtype=float)
            ok = nrm > 1e-9 * nrm.max()
            A = (scn[f] * norms[f]).transpose(*[d for d in sc[f].dims if d != "mode"], "mode").values[..., ok]
            B = sc[f].transpose(..., "mode").values[..., ok]
            e = relerr(A, B)
            ctx.check(e <= 1e-10, "normalized_scores", f"field {f}: scores(normalized=True)*norm != scores() ({e:.3g})", **dict(disc, field=f))
    if M.base_of(cls) != "POP":
        cn = call(ctx, "components_raises", ad.components, True, disc=disc)
        cu = call(ctx, "components_raises", ad.components, False, disc=dict(disc, normalized=False))
        if not isinstance(cn, Failed) and not isinstance(cu, Failed):
            for f in range(ad.n_fields):
                nrm = np.asarray(norms[f].values, dtype=float)
                ok = nrm > 1e-6 * nrm.max()  # numerically null modes are not compared
                for (i, v, a_), (_, _, b_) in zip(items_of(cn[f]), items_of(cu[f])):
                    A = (a_ * norms[f]).transpose(*[d for d in b_.dims if d != "mode"], "mode").values[..., ok]
                    e = relerr(A, b_.transpose(..., "mode").values[..., ok])
                    ctx.check(e <= 1e-9, "normalized_components", f"field {f} item {i} var {v}: components(normalized=False) != components()*norm ({e:.3g})",
                              **dict(disc, field=f))
    if hilbert:
        return

    # ---------- (b) transform(inverse_transform(s)) = s for arbitrary s
    modes = [int(m) for m in sc[0]["mode"].values]
    S, subs = [], None
    for f in range(ad.n_fields):
        s, subs = arbitrary_scores(desc, desc["lays"][0]["sdims"], modes, cplx, 0 if f == 0 else 1)
        S.append(s)
    ctx.event(f"s_modes={'all' if len(subs) == len(modes) else 'subset'}")
    X = call(ctx, "inverse_transform_raises", ad.inverse_transform, S, disc=dict(disc, arbitrary=True))
    if isinstance(X, Failed):
        return
    Tb = call(ctx, "transform_raises", ad.transform, X, disc=dict(disc, arbitrary=True))
    if isinstance(Tb, Failed):
        return
    for f in range(ad.n_fields):
        rs, cs, Ms = flatten_da(S[f], sdims)
        rt, ct, Mt = flatten_da(Tb[f], sdims)
        ti = {r: i for i, r in enumerate(rt)}
        if not ctx.check(all(r in ti for r in rs) and len(rt) == len(rs), "roundtrip_labels", f"field {f}: sample labels of T(I(s)) differ from s", **dict(disc, field=f)):
            continue
        Mt = Mt[[ti[r] for r in rs]]
        col = {dict(c)["mode"]: j for j, c in enumerate(ct)}
        scale = float(np.max(np.abs(Ms))) or 1.0
        a = alpha[f] if ad.fam == "cross" else 1.0
        tol = 1e-8
        if a < 1:
            Tm = table_from_obj(data[f], sdims).M
            s_ = np.linalg.svd(Tm - Tm.mean(axis=0, keepdims=True), compute_uv=False)
            s_ = s_[s_ > 1e-10 * s_[0]]
            tol = 1e-8 * max(1.0, (s_[0] / s_[-1]) ** (2 * (1 - a)))
        got = np.stack([Mt[:, col[m]] for m in subs], axis=1)
        want = np.stack([Ms[:, [dict(c)["mode"] for c in cs].index(m)] for m in subs], axis=1)
        e = relerr(got, want, scale=scale)
        ctx.check(e <= tol, "transform_inverse_roundtrip", f"field {f}: transform(inverse_transform(s)) != s (rel err {e:.3g}, tol {tol:.1g})", **dict(disc, field=f))
        others = [col[m] for m in col if m not in subs]
        if others and not M.is_rotator(cls):
            e0 = float(np.max(np.abs(Mt[:, others]))) / scale
            ctx.check(e0 <= tol * 10, "transform_inverse_other_modes", f"field {f}: modes absent from s got non-zero scores ({e0:.3g})", **dict(disc, field=f))

    # ---------- normalized switches of transform / inverse_transform
    Tn = call(ctx, "transform_raises", ad.transform, X, True, disc=dict(disc, normalized=True))
    if not isinstance(Tn, Failed):
        for f in range(ad.n_fields):
            nrm = np.asarray(norms[f].values, dtype=float)
            ok = nrm > 1e-9 * nrm.max()
            A = (Tn[f] * norms[f]).transpose(*[d for d in Tb[f].dims if d != "mode"], "mode").values[..., ok]
            e = relerr(A, Tb[f].transpose(..., "mode").values[..., ok])
            ctx.check(e <= 1e-10, "normalized_transform", f"field {f}: transform(normalized=True)*norm != transform() ({e:.3g})", **dict(disc, field=f))
    if ad.fam == "single" and M.base_of(cls) != "POP":
        for variant in ("array", "scalar_mode"):
            s = S[0] if variant == "array" else S[0].isel(mode=0)
            a1 = call(ctx, "inverse_transform_raises", ad.model.inverse_transform, s, normalized=True, disc=dict(disc, normalized=True, variant=variant))
            sn = s * norms[0].sel(mode=s["mode"])
            a2 = call(ctx, "inverse_transform_raises", ad.model.inverse_transform, sn, disc=dict(disc, variant=variant))
            if isinstance(a1, Failed) or isinstance(a2, Failed):
                continue
            t1, t2 = table_from_obj(a1, sdims), table_from_obj(a2, sdims)
            try:
                e = relerr(t1.at(t2.rows, t2.cols), t2.M)
            except KeyError:
                e = float("inf")
            ctx.check(e <= 1e-10, "normalized_inverse_transform", f"inverse_transform(s, normalized=True) != inverse_transform(s*norm) ({e:.3g}, {variant})",
                      **dict(disc, variant=variant))
