"""C14 — a model's answers depend only on its last fit, never on call history (generated operation sequences)."""

from __future__ import annotations

import copy

import numpy as np
import xarray as xr
from hypothesis import strategies as st

from vlib import cases, layouts as L, models as M
from vlib.tab import table_from_obj
from vlib.util import Failed, call, relerr

ID = "C14"
RULE = (
    "Hypothesis draws a model class (EOF, ComplexEOF, SparsePCA, POP, CPCCA, MCA), three data sets (two of one structure with "
    "different values, one of another structure) and a sequence of 2..12 operations over {fit(D_i), transform(other samples), "
    "inverse_transform, components/scores/metric queries incl. non-default flags, compute, serialize, rotator.fit(model) with one "
    "reused rotator object, bootstrapper.fit(model)} applied to ONE model object. After every operation all accessors are compared "
    "with a fresh model fitted once on the arguments of the last fit; user inputs are compared with deep copies taken beforehand. "
    "Non-trivial: the sequence holds >= 2 fits, or a transform of other data between a fit and a later query."
)
ASSUMPTIONS = [
    "sequences are generated as lists of operations (they shrink as one value); operations whose precondition fails are skipped and counted",
    "fresh-model comparison uses the exact solver and the same random_state (rtol 1e-9)",
    "rotator results are compared with a fresh rotator on a fresh model while the rotator is current (fitted after the last model fit)",
]
TIERS = {"quick": (8, 32), "thorough": (16, 200)}
CASE_TIMEOUT = 600

CLASSES = ["EOF", "EOF", "ComplexEOF", "SparsePCA", "POP", "CPCCA", "MCA"]
OPS = ["fit0", "fit1", "fit2", "transform", "transform", "inverse", "query", "query_flags", "compute", "serialize", "rotator", "rotator", "rotate_refit_rotate", "bootstrap"]


@st.composite
def strategy(draw, cls=None):
    cls = cls or draw(st.sampled_from(CLASSES))  # (the runner stratifies: every shard runs its slice of CLASSES, one class at a time)
    base = draw(cases.model_case([cls], min_samples=9, max_sd=2, max_fd=2, allow_weights=False, allow_coslat=False))
    other = draw(cases.model_case([cls], min_samples=9, max_sd=2, max_fd=2, allow_weights=False, allow_coslat=False))
    ops = draw(st.lists(st.sampled_from(OPS), min_size=3, max_size=12))
    if not ops[0].startswith("fit"):
        ops = ["fit0"] + ops
    return {"cls": cls, "a": base, "b": other, "ops": ops, "pick": draw(st.integers(0, 10_000)),
            "wk": draw(st.sampled_from(["none", "none", "full", "partial"]))}  # user weights handed to every fit


def snapshot(ad, data, sdims):
    """All answers of a fitted model as label tables."""
    out = {}
    fam = ad.fam
    comps = ad.components()
    out["components"] = [table_from_obj(c, ["mode"]) for c in comps]
    out["scores"] = [table_from_obj(s, sdims) for s in ad.scores()]
    out["scores_normalized"] = [table_from_obj(s, sdims) for s in ad.scores(True)]
    out["transform"] = [table_from_obj(s, sdims) for s in ad.transform(data)]
    out["inverse_transform"] = [table_from_obj(r, sdims) for r in ad.inverse_transform(ad.scores())]
    m = ad.model
    if fam == "single":
        for name in ("explained_variance", "singular_values", "eigenvalues", "explained_variance_ratio"):
            if hasattr(m, name) and M.base_of(ad.cls) not in ("POP",) or (name == "eigenvalues" and hasattr(m, name)):
                try:
                    out[name] = [table_from_obj(getattr(m, name)(), ["mode"])]
                except (KeyError, AttributeError):
                    pass
    else:
        out["singular_values"] = [table_from_obj(m.data["squared_covariance"], ["mode"])]
        out["scf"] = [table_from_obj(m.squared_covariance_fraction(), ["mode"])]
    return out


def compare(ctx, sub, A, B, disc):
    ok = True
    for name in A:
        if name not in B:
            ctx.violation(sub, f"accessor {name} unavailable", **disc)
            ok = False
            continue
        for f, (ta, tb) in enumerate(zip(A[name], B[name])):
            try:
                got = tb.at(ta.rows, ta.cols)
            except KeyError as err:
                ctx.violation(sub, f"{name} field {f}: label {err} missing / labels differ from a fresh model", **dict(disc, output=name))
                ok = False
                continue
            if len(tb.rows) != len(ta.rows) or len(tb.cols) != len(ta.cols):
                ctx.violation(sub, f"{name} field {f}: {len(tb.rows)}x{len(tb.cols)} labels vs {len(ta.rows)}x{len(ta.cols)} of a fresh model", **dict(disc, output=name))
                ok = False
                continue
            e = relerr(got, ta.M)
            if not ctx.check(e <= 1e-9, sub, f"{name} field {f}: differs from a fresh model fitted on the last fit's data (rel err {e:.3g})", **dict(disc, output=name)):
                ok = False
    return ok


def identical(a, b):
    if isinstance(a, list):
        return len(a) == len(b) and all(identical(x, y) for x, y in zip(a, b))
    return a.identical(b)


def run_case(desc, ctx):
    import xeofs as xe

    cls = desc["cls"]
    ctx.event(f"cls={cls}")
    da, db = desc["a"], desc["b"]
    sets = {}
    built_a = cases.build_case(da)
    sets[0] = (da, built_a["data"], built_a["sdims"], built_a["names"])
    sets[1] = (da, cases.build_data(da, seed_shift=41), built_a["sdims"], built_a["names"])
    built_b = cases.build_case(db)
    sets[2] = (db, built_b["data"], built_b["sdims"], built_b["names"])
    originals = {i: copy.deepcopy(s[1]) for i, s in sets.items()}
    wk = desc.get("wk", "none")
    ctx.event(f"weights={wk}")
    W = {i: None for i in sets}
    if wk != "none":
        for i, s_ in sets.items():
            W[i] = [cases.weights_like(o, s_[2], 11 + i) for o in s_[1]] if wk == "full" else [cases.partial_weights(o, s_[2]) for o in s_[1]]
    W_orig = copy.deepcopy(W)
    fam = M.family(cls)
    disc = dict(cls=cls)

    # ONE model object whose constructor parameters allow every data set: use the smaller n_modes
    def spec_for(i):
        sp = dict(sets[i][0]["spec"])
        return sp

    k = min(spec_for(0)["n_modes"], spec_for(2)["n_modes"])
    if M.base_of(cls) == "POP":
        k = max(2, k)
    spec = dict(spec_for(0), n_modes=k)
    if fam == "cross":
        spec.update(use_pca=[False, False], n_pca_modes=["all", "all"])
        a_ = M.cross_alpha(spec)
        for i in (0, 2):
            n_i = L.n_samples(sets[i][0]["lays"][0])
            if min(a_) < 1 and max(L.n_features(l) for l in sets[i][0]["lays"]) > n_i - 2:
                ctx.refused("generator: whitening needs n-2 >= p for every data set")
        k = min(k, *[min(L.n_features(l) for l in sets[i][0]["lays"]) for i in (0, 2)])
        spec["n_modes"] = k
    elif M.base_of(cls) == "POP":
        for i in (0, 2):
            kmax = min(L.n_features(sets[i][0]["lays"][0]), L.n_samples(sets[i][0]["lays"][0]) - 2)
            k = min(k, kmax)
        if k < 2:
            ctx.refused("generator: POP needs >= 2 PCs in every data set")
        spec.update(n_modes=k, n_pca_modes=k)
    else:
        for i in (0, 2):
            k = min(k, min(L.n_samples(sets[i][0]["lays"][0]), L.n_features(sets[i][0]["lays"][0])))
        spec["n_modes"] = max(1, k)
    names = ("S_", "F_")  # valid for every data set
    spec["cls"] = cls

    def new_adapter():
        sp = dict(spec)
        if fam == "cross":
            sp["n_pca_modes"] = list(sp["n_pca_modes"])
        return M.Adapter(sp, names=names)

    ad = new_adapter()
    fresh_cache = {}

    def fresh(i):
        if i not in fresh_cache:
            f = new_adapter()
            f.fit(copy.deepcopy(originals[i]), sets[i][2], copy.deepcopy(W_orig[i]))
            fresh_cache[i] = snapshot(f, copy.deepcopy(originals[i]), sets[i][2])
        return fresh_cache[i]

    nrot = max(2, min(4, spec["n_modes"]))
    rot = None  # one reused rotator object
    rot_current = False
    last = None
    n_fits = 0
    transformed_since_fit = False
    nontrivial = False
    executed = 0
    ops = []
    for op in desc["ops"]:
        # the loop a user writes: rotate, fit the model on the next data set, rotate again with the same rotator
        ops.extend(["rotator", f"fit{(desc['pick'] + len(ops)) % 3}", "rotator"] if op == "rotate_refit_rotate" else [op])
    for step, op in enumerate(ops):
        d = dict(disc, op=op, step=min(step, 3))
        if op.startswith("fit"):
            i = int(op[3])
            r = call(ctx, "fit_raises", ad.fit, sets[i][1], sets[i][2], W[i], disc=d, refuse=(RuntimeError,), refuse_if=lambda e: "did not converge" in str(e))
            if isinstance(r, Failed):
                return
            last = i
            n_fits += 1
            rot_current = False
            transformed_since_fit = False
            if n_fits >= 2:
                nontrivial = True
        elif last is None:
            continue
        elif op == "transform":
            # other samples of the structure of the last fit (fewer samples, other values)
            src = sets[1 if last == 0 else 0 if last == 1 else 2]
            d0 = sets[last][2][0]
            other = [L.map_items(o, lambda x: x.isel({d0: slice(1, max(2, x.sizes[d0] - 1))})) for o in (src[1] if last != 2 else cases.build_data(sets[2][0], seed_shift=7))]
            r = call(ctx, "transform_raises", ad.transform, other, disc=d)
            transformed_since_fit = True
        elif op == "inverse":
            sc = ad.scores()
            sub = [s.isel(mode=slice(0, 1)) for s in sc]
            call(ctx, "inverse_transform_raises", ad.inverse_transform, sub, disc=d)
        elif op == "query":
            call(ctx, "query_raises", ad.components, disc=d)
            call(ctx, "query_raises", ad.scores, disc=d)
        elif op == "query_flags":
            call(ctx, "query_raises", ad.scores, True, disc=d)
            if M.base_of(cls) not in ("POP", "SparsePCA"):
                call(ctx, "query_raises", ad.components, False, disc=d)
        elif op == "compute":
            call(ctx, "compute_raises", ad.model.compute, disc=d)
        elif op == "serialize":
            call(ctx, "serialize_raises", ad.model.serialize, disc=d)
        elif op == "rotator":
            if M.base_of(cls) in ("SparsePCA", "POP") or spec["n_modes"] < 2:
                continue
            if rot is None:
                rot = (xe.single.ComplexEOFRotator if cls == "ComplexEOF" else xe.single.EOFRotator if fam == "single" else xe.cross.CPCCARotator)(n_modes=nrot, power=1)
            r = call(ctx, "rotator_fit_raises", rot.fit, ad.model, disc=d, refuse=(RuntimeError,), refuse_if=lambda e: "did not converge" in str(e))
            if isinstance(r, Failed):
                return
            rot_current = True
        elif op == "bootstrap":
            if cls != "EOF":
                continue
            b = xe.validation.EOFBootstrapper(n_bootstraps=2, seed=1)
            call(ctx, "bootstrapper_fit_raises", b.fit, ad.model, disc=d)
        executed += 1
        if transformed_since_fit and op in ("query", "query_flags", "inverse", "serialize", "compute"):
            nontrivial = True
        # ---- invariant: answers equal those of a fresh model fitted once on the data of the last fit
        snap = call(ctx, "accessor_raises", snapshot, ad, sets[last][1], sets[last][2], disc=d)
        if isinstance(snap, Failed):
            return
        if not compare(ctx, "history_dependence", fresh(last), snap, d):
            return
        # ---- names of the stored results are the model's own
        for key, arr in ad.model.data.items():
            if not ctx.check(arr.name == key, "result_renamed", f"model.data['{key}'] is now named '{arr.name}'", **d):
                return
        # ---- a current rotator equals a fresh rotator on a fresh model
        if rot is not None and rot_current:
            fa = new_adapter()
            fa.fit(copy.deepcopy(originals[last]), sets[last][2], copy.deepcopy(W_orig[last]))
            fr = type(rot)(n_modes=nrot, power=1)
            try:
                fr.fit(fa.model)
            except RuntimeError:
                fr = None
            if fr is not None:
                if fam == "single":
                    A = {"components": [table_from_obj(fr.components(), ["mode"])], "scores": [table_from_obj(fr.scores(), sets[last][2])]}
                    B = {"components": [table_from_obj(rot.components(), ["mode"])], "scores": [table_from_obj(rot.scores(), sets[last][2])]}
                else:
                    A = {"components": [table_from_obj(c, ["mode"]) for c in fr.components()], "scores": [table_from_obj(s, sets[last][2]) for s in fr.scores()]}
                    B = {"components": [table_from_obj(c, ["mode"]) for c in rot.components()], "scores": [table_from_obj(s, sets[last][2]) for s in rot.scores()]}
                if not compare(ctx, "rotator_history_dependence", A, B, d):
                    return
        # ---- user inputs untouched
        for i in sets:
            if not ctx.check(identical(sets[i][1], originals[i]), "input_modified", f"data set {i} was modified by {op}", **d):
                return
            if W[i] is not None and not ctx.check(identical(W[i], W_orig[i]), "input_modified", f"the weights of data set {i} were modified by {op}", **dict(d, what="weights")):
                return
    ctx.event(f"n_fits={min(n_fits, 4)}")
    ctx.event(f"executed_ops={min(executed, 12)}")
    ctx.nontrivial(nontrivial)
