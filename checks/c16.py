"""C16 — fractional whitening and PCA reduction are exact, invertible changes of basis."""

from __future__ import annotations

import numpy as np
import xarray as xr
from hypothesis import strategies as st

from vlib import oracle
from vlib.util import Failed, call, relerr

ID = "C16"
RULE = (
    "Hypothesis draws n>p, a condition number 1..1e6 (log-spaced singular values, exactly centred columns), real/complex, "
    "alpha in [0,1] (end points over-weighted), numpy or dask (feature dim in one chunk), PCA n_modes as int / fraction / 'all', "
    "seeds and a random pattern matrix. Non-trivial: alpha strictly inside (0,1) or PCA truncates."
)
ASSUMPTIONS = [
    "covariances use the 1/N convention on both sides, as the Whitener documents",
    "tolerances scale with cond^(1-alpha) (whitening amplifies rounding by that factor): 1e-9*cond^(1-alpha), capped at 1e-3",
    "the PCA projector is compared when s_{k+1}/s_k <= 0.2 (randomised solvers, tol 1e-4) or < 1-1e-6 (exact solver)",
    "direct comparisons of T with the reference matrix power use tol max(1e-9*cond^(1-alpha), 1e-13*cond^2)",
]
TIERS = {"quick": (4, 300), "thorough": (16, 2500)}


@st.composite
def strategy(draw):
    p = draw(st.integers(1, 8))
    n = p + draw(st.integers(1, 12))
    return {
        "n": n + 1, "p": p, "log_cond": draw(st.sampled_from([0, 1, 2, 3, 4, 5, 6])) * draw(st.sampled_from([1.0, 1.0, 0.5])),
        "cplx": draw(st.booleans()), "alpha": draw(st.one_of(st.sampled_from([0.0, 1.0, 0.5, 0.0]), st.floats(0, 1))),
        "dask": draw(st.integers(0, 3)) == 0,
        "pca": draw(st.sampled_from(["int", "frac", "all"])), "pca_k": draw(st.floats(0, 1)),
        "frac": draw(st.floats(0.05, 1.0)), "seed": draw(st.integers(0, 2**31 - 1)), "kpat": draw(st.integers(1, 4)),
        "scale_exp": draw(st.sampled_from([0, 0, -3, 3])),
    }


def build(desc):
    rng = np.random.default_rng(desc["seed"])
    n, p, c = desc["n"], desc["p"], desc["cplx"]
    s = 10.0 ** (-desc["log_cond"] * np.linspace(0, 1, p)) if p > 1 else np.ones(1)
    s = s * 10.0 ** desc["scale_exp"] * np.sqrt(n)
    A = rng.standard_normal((n, p)) + (1j * rng.standard_normal((n, p)) if c else 0)
    A = A - A.mean(axis=0, keepdims=True)
    U, _ = np.linalg.qr(A)
    B = rng.standard_normal((p, p)) + (1j * rng.standard_normal((p, p)) if c else 0)
    V, _ = np.linalg.qr(B)
    X = (U[:, :p] * s) @ V.conj().T
    X = X - X.mean(axis=0, keepdims=True)
    return X, s


def to_da(X, dask):
    da = xr.DataArray(X, dims=("sample", "feature"), coords={"sample": np.arange(X.shape[0]), "feature": np.arange(X.shape[1]) * 2})
    if dask:
        da = da.chunk({"sample": max(2, X.shape[0] // 2), "feature": -1})
    return da


def val(x):
    """Materialise (dask) results; a failure here is xeofs failing to deliver a result, not a harness error."""
    from vlib.runner import Violation

    try:
        return np.asarray(x.compute().values if hasattr(x, "compute") else x.values)
    except Exception as e:  # noqa: BLE001
        raise Violation(ID, "compute_raises", f"computing a lazy result raised {type(e).__name__}: {str(e)[:150]}", {"exc": type(e).__name__})


def run_case(desc, ctx):
    from xeofs.preprocessing.pca import PCA
    from xeofs.preprocessing.whitener import Whitener

    X, s = build(desc)
    n, p = X.shape
    a = desc["alpha"]
    cond = float(s[0] / s[-1])
    amp = cond ** (1 - a)
    tol = min(1e-3, 1e-9 * max(1.0, amp))
    # direct comparisons of T with the reference power: both sides carry the eigenvalue error eps*cond(C) = eps*cond^2
    tol_T = min(1e-2, max(tol, 1e-13 * cond**2))
    ctx.event(f"alpha={'0' if a == 0 else '1' if a == 1 else 'frac'}")
    ctx.event("dask" if desc["dask"] else "numpy")
    ctx.event("complex" if desc["cplx"] else "real")
    ctx.event(f"log_cond~{round(np.log10(cond))}")
    disc = dict(dask=desc["dask"], cplx=desc["cplx"], alpha_kind="0" if a == 0 else "1" if a == 1 else "frac")
    da = to_da(X, desc["dask"])
    rng = np.random.default_rng(desc["seed"] + 1)

    # ------------------------------------------------------------------ Whitener
    w = Whitener(alpha=a)
    Xw_da = call(ctx, "whitener_fit_raises", w.fit_transform, da, disc=disc)
    if isinstance(Xw_da, Failed):
        return
    Xw = val(Xw_da)
    C = X.conj().T @ X / n
    Cw = Xw.conj().T @ Xw / n
    ref = oracle.frac_power(C, a) if a < 1 else C
    if a == 0:
        ref = np.eye(p)
    e = relerr(Cw, ref, scale=float(np.abs(ref).max()))
    ctx.check(e <= tol, "whitened_covariance", f"cov(whitened) != C^alpha (rel err {e:.3g}, tol {tol:.1g}, cond {cond:.1g})", **disc)
    back = call(ctx, "whitener_inverse_raises", w.inverse_transform_data, Xw_da, disc=disc)
    if not isinstance(back, Failed):
        e = relerr(val(back.transpose("sample", ...)), X)
        ctx.check(e <= tol, "unwhitening_restores_data", f"rel err {e:.3g} (tol {tol:.1g})", **disc)
    if not w.is_identity:
        T = val(w.T.transpose("feature", "mode"))
        Ti = val(w.Tinv.transpose("mode", "feature"))
        tn = float(np.abs(T).max())
        ctx.check(relerr(T, T.conj().T) <= 1e-9 * max(1, amp), "T_hermitian", f"{relerr(T, T.conj().T):.3g}", **disc)
        ctx.check(relerr(Ti, Ti.conj().T) <= 1e-9 * max(1, amp), "Tinv_hermitian", f"{relerr(Ti, Ti.conj().T):.3g}", **disc)
        e = float(np.abs(T @ Ti - np.eye(p)).max())
        ctx.check(e <= tol, "T_Tinv_inverse", f"|T Tinv - I| = {e:.3g} (tol {tol:.1g})", **disc)
        Tref = oracle.frac_power(C, (a - 1) / 2)
        e = relerr(T, Tref, scale=float(np.abs(Tref).max()))
        ctx.check(e <= tol_T, "T_is_fractional_power", f"T != C^((alpha-1)/2) (rel err {e:.3g}, tol {tol_T:.1g})", **disc)
    # pattern maps
    k = desc["kpat"]
    P = rng.standard_normal((p, k)) + (1j * rng.standard_normal((p, k)) if desc["cplx"] else 0)
    Pda = xr.DataArray(P, dims=("feature", "mode"), coords={"feature": da.coords["feature"].values, "mode": np.arange(1, k + 1)})
    into = call(ctx, "transform_components_raises", w.transform_components, Pda, disc=disc)
    if not isinstance(into, Failed):
        out = call(ctx, "inverse_transform_components_raises", w.inverse_transform_components, into, disc=disc)
        if not isinstance(out, Failed):
            e = relerr(val(out.transpose("feature", "mode")), P)
            ctx.check(e <= tol, "pattern_roundtrip_in_out", f"inverse(transform_components(P)) != P (rel err {e:.3g})", **disc)
        # the pattern map is the adjoint of the inverse data map: <x T, T^H p> consistent -> X P == Xw (Tinv^H... ) check scores
        # data map and pattern map are consistent: (X T)(Tinv^H-mapped pattern)... projection identity:
        #   Xw @ into  ==  X @ (T T^H) P   — asserted through the independent T reference below (a<1)
        if not w.is_identity:
            Tref = oracle.frac_power(C, (a - 1) / 2)
            e = relerr(val(into.transpose("feature", "mode")), Tref.conj().T @ P, scale=float(np.abs(Tref).max() * np.abs(P).max()))
            ctx.check(e <= tol_T, "pattern_map_is_T_adjoint", f"transform_components(P) != T^H P (rel err {e:.3g}, tol {tol_T:.1g})", **disc)
    outof = call(ctx, "inverse_transform_components_raises", w.inverse_transform_components, Pda, disc=disc)
    if not isinstance(outof, Failed):
        back2 = call(ctx, "transform_components_raises", w.transform_components, outof, disc=disc)
        if not isinstance(back2, Failed):
            e = relerr(val(back2.transpose("feature", "mode")), P)
            ctx.check(e <= tol, "pattern_roundtrip_out_in", f"transform_components(inverse(P)) != P (rel err {e:.3g})", **disc)

    # ------------------------------------------------------------------ PCA
    rank = min(n, p)
    lam = s**2
    cum = np.cumsum(lam) / lam.sum()
    if desc["pca"] == "int":
        nm = 1 + int(desc["pca_k"] * (rank - 1))
        kk = nm
    elif desc["pca"] == "all":
        nm, kk = "all", rank
    else:
        f = desc["frac"]
        if np.any(np.abs(cum - f) < 1e-6):
            f = min(1.0, f + 3e-6)
        nm = float(f)
        if np.any(np.abs(cum[:-1] - f) < 1e-9):
            ctx.refused("generator: fraction within 1e-9 of a cumulative explained-variance value (round-off would decide)")
        kk = int(np.searchsorted(cum, f - 1e-12) + 1)
        kk = min(kk, rank)
    if desc["dask"] and isinstance(nm, float):
        ctx.event("pca_fraction_with_dask_skipped")
        ctx.nontrivial(0 < a < 1)
        return
    ctx.event(f"pca={desc['pca']}")
    ctx.nontrivial((0 < a < 1) or kk < rank)
    pca = PCA(n_modes=nm, init_rank_reduction=1.0, compute_eagerly=not desc["dask"], random_state=desc["seed"] % 100)
    Z = call(ctx, "pca_fit_raises", pca.fit_transform, da, disc=dict(disc, pca=desc["pca"]), refuse=(NotImplementedError,),
             refuse_if=lambda e: "Complex data together with dask" in str(e))
    if isinstance(Z, Failed):
        return
    V = val(pca.V.transpose("feature", "mode"))
    d2 = dict(disc, pca=desc["pca"])
    if not ctx.check(V.shape == (p, kk), "pca_n_modes", f"V has shape {V.shape}, expected ({p},{kk}) for n_modes={nm}", **d2):
        return
    e = float(np.abs(V.conj().T @ V - np.eye(kk)).max())
    ctx.check(e <= 1e-9, "pca_orthonormal", f"|V^H V - I| = {e:.3g}", **d2)
    ratio = (s[kk] / s[kk - 1]) if kk < rank else 0.0
    randomized = desc["dask"] or (kk <= int(0.8 * rank))  # a randomised solver may be selected
    # randomised range finders converge like ratio^(2q+1): compare only behind a clear gap, with their accuracy
    # (dask's svd_compressed runs un-normalised power iterations: directions with s_k/s_1 below ~1e-2 drown in rounding)
    well_scaled = (s[kk - 1] / s[0] >= 0.05) or not desc["dask"]
    if (randomized and ratio <= 0.2 and well_scaled) or (not randomized and ratio <= 1 - 1e-6):
        _, _, Vh = np.linalg.svd(X, full_matrices=False)
        Pref = Vh[:kk].conj().T @ Vh[:kk]
        e = float(np.abs(V @ V.conj().T - Pref).max())
        ptol = 1e-4 if randomized else 1e-9 / max(1e-6, 1 - ratio)
        ctx.check(e <= ptol, "pca_leading_subspace", f"|V V^H - projector| = {e:.3g} (s_k+1/s_k = {ratio:.2g})", **d2)
    Zv = val(Z.transpose("sample", "feature"))
    e = relerr(Zv, X @ V)
    ctx.check(e <= 1e-9, "pca_transform", f"transform != X V ({e:.3g})", **d2)
    rec = call(ctx, "pca_inverse_raises", pca.inverse_transform_data, Z, disc=d2)
    if not isinstance(rec, Failed):
        e = relerr(val(rec.transpose("sample", "feature")), X @ V @ V.conj().T, scale=float(np.abs(X).max()))
        ctx.check(e <= 1e-9, "pca_data_roundtrip_is_projection", f"rel err {e:.3g}", **d2)
    pin = call(ctx, "pca_transform_components_raises", pca.transform_components, Pda, disc=d2)
    if not isinstance(pin, Failed):
        pout = call(ctx, "pca_inverse_components_raises", pca.inverse_transform_components, pin, disc=d2)
        if not isinstance(pout, Failed):
            e = relerr(val(pout.transpose("feature", "mode")), V @ V.conj().T @ P, scale=float(np.abs(P).max()))
            ctx.check(e <= 1e-9, "pca_pattern_roundtrip", f"inverse(transform_components(P)) != V V^H P ({e:.3g})", **d2)
    Q = rng.standard_normal((kk, k)) + (1j * rng.standard_normal((kk, k)) if desc["cplx"] else 0)
    Qda = xr.DataArray(Q, dims=("feature", "mode"), coords={"feature": np.arange(1, kk + 1), "mode": np.arange(1, k + 1)})
    qout = call(ctx, "pca_inverse_components_raises", pca.inverse_transform_components, Qda, disc=d2)
    if not isinstance(qout, Failed):
        qin = call(ctx, "pca_transform_components_raises", pca.transform_components, qout, disc=d2)
        if not isinstance(qin, Failed):
            e = relerr(val(qin.transpose("feature", "mode")), Q)
            ctx.check(e <= 1e-9, "pca_pattern_roundtrip_reduced", f"transform_components(inverse(Q)) != Q ({e:.3g})", **d2)
