"""C05 — out-of-sample transform is a per-sample map labelled by the new data."""

from __future__ import annotations

import copy

import numpy as np
import xarray as xr
from hypothesis import strategies as st

from vlib import cases, layouts as L, models as M
from vlib.tab import flatten_da
from vlib.util import Failed, call, relerr

ID = "C05"
RULE = (
    "Hypothesis draws a fitted transform-capable model (as C04) and new data sharing the feature layout: mode in "
    "{fresh coordinates (other labels, 1..N+2 samples along the first sample dim), same coordinates, subset of the training "
    "samples, repeated labels (one sample dim)} and a split point. Non-trivial: new sample labels differ from the training "
    "labels or their count differs."
)
ASSUMPTIONS = [
    "with one sample dimension output order = input order (checked positionally, which also covers repeated labels); "
    "with several sample dimensions comparison is by label (the grid may come back sorted)",
    "rtol 1e-8 relative to the largest |score|",
    "RuntimeError('Rotation process did not converge') is a refusal",
]
TIERS = {"quick": (8, 60), "thorough": (16, 500)}

CLASSES = M.SINGLE + list(M.SINGLE_ROT) + M.CROSS + list(M.CROSS_ROT) + ["multi.CCA"]


@st.composite
def strategy(draw, cls=None):
    cls = cls or draw(st.sampled_from(CLASSES))  # (the runner stratifies: every shard runs its slice of CLASSES, one class at a time)
    if cls == "multi.CCA":
        lay1 = draw(L.layout(max_sd=2, max_fd=2, min_samples=8, min_features=2, max_items=2, max_vars=2))
        lay2 = draw(L.layout(max_sd=1, max_fd=2, min_samples=1, min_features=2, max_items=2, max_vars=2))
        lay2["sdims"] = lay1["sdims"]
        d = {"cls": cls, "lays": [lay1, lay2], "spec": {"cls": cls, "pca": draw(st.booleans()), "n_modes": 2},
             "names": ["sample", "feature"], "weights": False}
    else:
        d = draw(cases.model_case([cls]))
    nsd = len(d["lays"][0]["sdims"])
    modes = ["fresh", "fresh", "same", "subset"] + (["repeat"] if nsd == 1 and d["lays"][0]["sdims"][0]["kind"] != "multi" else [])
    d["mode"] = draw(st.sampled_from(modes))
    d["m"] = draw(st.integers(1, d["lays"][0]["sdims"][0]["size"] + 2))
    d["split"] = draw(st.floats(0, 1))
    d["normalized"] = draw(st.integers(0, 3)) == 0
    d["pick"] = draw(st.integers(0, 10_000))
    return d


def new_data(desc, data, sdims):
    """-> list of new objects (one per field) and the tag of what they are."""
    mode = desc["mode"]
    d0 = sdims[0]
    if mode == "subset":
        n0 = desc["lays"][0]["sdims"][0]["size"]
        rng = np.random.default_rng(desc["pick"])
        k = int(rng.integers(1, n0 + 1))
        idx = np.sort(rng.permutation(n0)[:k])
        return [L.map_items(o, lambda x: x.isel({d0: idx})) for o in data], idx
    lays = copy.deepcopy(desc["lays"])
    for lay in lays:
        s0 = lay["sdims"][0]
        if mode in ("fresh",):
            s0["size"] = min(desc["m"], 8)  # label pools hold >= 8 distinct labels for every index kind
            s0["lseed"] = s0["lseed"] + 1000
    lays[1:] = [dict(l, sdims=lays[0]["sdims"]) for l in lays[1:]]
    out = cases.build_data(dict(desc, lays=lays), seed_shift=31)
    if mode == "fresh" and lays[0]["sdims"][0]["kind"] == "range":
        # range labels restart at 0: shift them so that they are genuinely new
        off = desc["lays"][0]["sdims"][0]["size"] - (desc["pick"] % 2)
        out = [L.map_items(o, lambda x: x.assign_coords({d0: x[d0].values + off})) for o in out]
    if mode == "repeat":
        rng = np.random.default_rng(desc["pick"])
        n0 = lays[0]["sdims"][0]["size"]
        idx = rng.integers(0, n0, size=n0 + 1)
        out = [L.map_items(o, lambda x: x.isel({d0: idx})) for o in out]
    return out, None


SKIP = {"modes": ()}


def rows_of(da, sdims):
    rk, ck, Mx = flatten_da(da, sdims)
    order = sorted((j for j in range(len(ck)) if dict(ck[j]).get("mode", 0) not in SKIP["modes"]),
                   key=lambda j: dict(ck[j]).get("mode", 0))
    return rk, Mx[:, order]


def run_case(desc, ctx):
    import xeofs as xe

    cls = desc["cls"]
    multi = cls == "multi.CCA"
    if multi:
        data = [L.build(l)[0] for l in desc["lays"]]
        sdims = L.sample_dims(desc["lays"][0])
        model = xe.multi.CCA(n_modes=2, pca=desc["spec"]["pca"], init_pca_modes=1.0, variance_fraction=0.999)
        ctx.event("cls=multi.CCA")
        SKIP["modes"] = ()
        disc = dict(cls=cls)
        if isinstance(call(ctx, "fit_raises", model.fit, data, sdims, disc=disc), Failed):
            return
        transform = lambda objs: list(model.transform(objs))  # noqa: E731
        scores = lambda: list(model.scores())  # noqa: E731
        nf = 2
    else:
        case = cases.build_case(desc)
        ad, data, sdims, w = case["adapter"], case["data"], case["sdims"], case["weights"]
        for ev in cases.case_events(desc):
            ctx.event(ev)
        disc = dict(cls=cls, power=desc["spec"].get("rot", {}).get("power", 0))
        fit = call(ctx, "fit_raises", ad.fit, data, sdims, w, refuse=(RuntimeError,),
                   refuse_if=lambda e: "did not converge" in str(e), disc=disc)
        if isinstance(fit, Failed):
            return
        norm = desc["normalized"]
        SKIP["modes"] = ()
        if norm:
            # modes with numerically zero norm have 0/0 normalised scores: not compared
            skip = set()
            for nm in ad.norms():
                v = np.abs(np.asarray(nm.values, dtype=float))
                skip |= {int(m) for m, x in zip(nm["mode"].values, v) if x <= 1e-9 * (v.max() if v.size else 1)}
            SKIP["modes"] = tuple(skip)
            if skip:
                ctx.event("zero_norm_mode_skipped")
        transform = lambda objs: ad.transform(objs, norm)  # noqa: E731
        scores = lambda: ad.scores(norm)  # noqa: E731
        nf = ad.n_fields
    ctx.event(f"mode={desc['mode']}")
    disc["mode"] = desc["mode"]
    disc["nsd"] = len(sdims)
    new, idx = new_data(desc, data, sdims)
    d0 = sdims[0]
    first_new = new[0][0] if isinstance(new[0], list) else new[0]
    n0 = first_new.sizes[d0]
    ctx.nontrivial(desc["mode"] in ("fresh", "repeat") or (desc["mode"] == "subset" and len(idx) != desc["lays"][0]["sdims"][0]["size"]))

    T = call(ctx, "transform_raises", transform, new, disc=disc)
    if isinstance(T, Failed):
        return
    positional = len(sdims) == 1
    from vlib.tab import items_of
    rows_T = []
    for f in range(nf):
        t = T[f]
        if not ctx.check(isinstance(t, xr.DataArray) and set(sdims) <= set(t.dims) and "mode" in t.dims, "output_dims",
                         f"field {f}: dims {getattr(t, 'dims', None)}", **disc):
            return
        rk, Mt = rows_of(t, sdims)
        # expected labels: those of the new data
        ref_da = items_of(new[f])[0][2]
        exp_rk, _, _ = flatten_da(ref_da.isel({d: 0 for d in ref_da.dims if d not in sdims}, drop=True), sdims)
        if positional:
            ok = ctx.check(rk == exp_rk, "labels", f"field {f}: sample labels {rk[:4]}.. != new data's {exp_rk[:4]}..", **disc)
        else:
            ok = ctx.check(set(rk) == set(exp_rk) and len(rk) == len(exp_rk), "labels",
                           f"field {f}: sample label set differs from the new data's ({len(rk)} vs {len(exp_rk)})", **disc)
        if not ok:
            return
        ctx.check(not np.isnan(Mt).any(), "spurious_nan", f"field {f}: NaN in scores of complete samples", **disc)
        rows_T.append((rk, Mt))

    scale = max(float(np.nanmax(np.abs(Mt))) for _, Mt in rows_T) or 1.0

    def compare(sub, rkA, MA, rkB, MB):
        """rows of B must equal the rows of A with the same label (or position)."""
        if positional:
            if not ctx.check(rkA == rkB, sub + "_labels", "row labels differ", **disc):
                return
            e = relerr(MB, MA, scale=scale)
        else:
            ia = {r: i for i, r in enumerate(rkA)}
            if not ctx.check(all(r in ia for r in rkB), sub + "_labels", "labels missing", **disc):
                return
            e = relerr(MB, MA[[ia[r] for r in rkB]], scale=scale)
        ctx.check(e <= 1e-8, sub, f"rel err {e:.3g}", **disc)

    # (a) subset of the training samples equals the subset of the scores
    if desc["mode"] == "subset":
        S = call(ctx, "scores_raises", scores, disc=disc)
        if not isinstance(S, Failed):
            for f in range(nf):
                # one sample dim: order is preserved -> positional subset; several: look labels up in the full grid
                rs, Ms = rows_of(S[f].isel({d0: idx}) if positional else S[f], sdims)
                compare("subset_eq_scores", rs, Ms, *rows_T[f])

    # (b) every split along the first sample dim: T(concat(A,B)) = concat(T(A), T(B))
    if n0 >= 2:
        j = 1 + int(desc["split"] * (n0 - 2) + 0.5)
        ctx.event("split")
        A = [L.map_items(o, lambda x: x.isel({d0: slice(0, j)})) for o in new]
        B = [L.map_items(o, lambda x: x.isel({d0: slice(j, None)})) for o in new]
        TA = call(ctx, "transform_raises", transform, A, disc=dict(disc, part="A"))
        TB = call(ctx, "transform_raises", transform, B, disc=dict(disc, part="B"))
        if not isinstance(TA, Failed) and not isinstance(TB, Failed):
            for f in range(nf):
                ra, Ma = rows_of(TA[f], sdims)
                rb, Mb = rows_of(TB[f], sdims)
                if positional:
                    compare("concat_additivity", rows_T[f][0], rows_T[f][1], ra + rb, np.concatenate([Ma, Mb]))
                else:
                    compare("concat_additivity", rows_T[f][0], rows_T[f][1], ra, Ma)
                    compare("concat_additivity", rows_T[f][0], rows_T[f][1], rb, Mb)
    # (c) one sample alone equals its row in the batch
    sel = {d: [desc["pick"] % first_new.sizes[d]] for d in sdims}
    one = [L.map_items(o, lambda x: x.isel(sel)) for o in new]
    T1 = call(ctx, "transform_raises", transform, one, disc=dict(disc, part="single_sample"))
    if not isinstance(T1, Failed):
        for f in range(nf):
            r1, M1 = rows_of(T1[f], sdims)
            if positional:
                i = sel[d0][0]
                compare("single_sample", rows_T[f][0][i:i + 1], rows_T[f][1][i:i + 1], r1, M1)
            else:
                compare("single_sample", rows_T[f][0], rows_T[f][1], r1, M1)

    # (d) entirely missing samples in the data to transform, then complete data again: the rows of the complete samples
    #     are unaffected, the missing ones are NaN or absent, and the following transform (whose sample count equals the
    #     number of valid samples of the previous call) is still labelled by its own data
    if n0 >= 3 and not multi:
        ctx.event("missing_sample_then_complete")
        j = desc["pick"] % n0
        keep = [i for i in range(n0) if i != j]

        def blank(x):
            cplx = np.iscomplexobj(x.to_array() if isinstance(x, xr.Dataset) else x)
            x = x.astype(complex) if cplx else x.astype(float)
            return x.where(~xr.DataArray(np.arange(x.sizes[d0]) == j, dims=[d0]))

        An = [L.map_items(o, blank) for o in new]
        Bn = [L.map_items(o, lambda x: x.isel({d0: keep})) for o in new]
        TAn = call(ctx, "transform_raises", transform, An, disc=dict(disc, part="missing_sample"))
        TBn = call(ctx, "transform_raises", transform, Bn, disc=dict(disc, part="after_missing_sample"))
        for tag, TT in (("missing_sample", TAn), ("after_missing_sample", TBn)):
            if isinstance(TT, Failed):
                continue
            for f in range(nf):
                if not (isinstance(TT[f], xr.DataArray) and set(sdims) <= set(TT[f].dims)):
                    ctx.violation("output_dims", f"{tag}: field {f}: dims {getattr(TT[f], 'dims', None)}", **disc)
                    continue
                rk, Mt = rows_of(TT[f], sdims)
                full_rk, full_M = rows_T[f]
                if tag == "after_missing_sample":
                    ref_da = items_of(Bn[f])[0][2]
                    exp_rk, _, _ = flatten_da(ref_da.isel({d: 0 for d in ref_da.dims if d not in sdims}, drop=True), sdims)
                    ok = (rk == exp_rk) if positional else (set(rk) == set(exp_rk) and len(rk) == len(exp_rk))
                    if not ctx.check(ok, "labels_after_missing_sample", f"field {f}: {len(rk)} sample labels {rk[:3]}.. != the new data's {len(exp_rk)} {exp_rk[:3]}..", **disc):
                        continue
                    ctx.check(not np.isnan(Mt).any(), "spurious_nan", f"field {f}: NaN in scores of complete samples (after a transform with a missing sample)", **disc)
                    fa = {r: i for i, r in enumerate(full_rk)} if not positional else None
                    ref = full_M[keep] if positional else full_M[[fa[r] for r in rk]]
                    e = relerr(Mt, ref, scale=scale)
                    ctx.check(e <= 1e-8, "after_missing_sample", f"field {f}: rel err {e:.3g}", **disc)
                else:
                    # complete samples keep their numbers; the missing one is NaN or absent
                    if positional:
                        if len(rk) == n0:
                            ctx.check(np.all(np.isnan(Mt[j])), "missing_sample_got_numbers", f"field {f}", **disc)
                            got = Mt[keep]
                        elif len(rk) == n0 - 1:
                            got = Mt
                        else:
                            ctx.violation("labels_with_missing_sample", f"field {f}: {len(rk)} samples returned for {n0} given (one missing)", **disc)
                            continue
                        e = relerr(got, full_M[keep], scale=scale)
                    else:
                        fa = {r: i for i, r in enumerate(full_rk)}
                        if not ctx.check(all(r in fa for r in rk), "labels_with_missing_sample", f"field {f}: unknown sample labels returned", **disc):
                            continue
                        rows = [i for i, r in enumerate(rk) if not np.all(np.isnan(Mt[i]))]
                        e = relerr(Mt[rows], full_M[[fa[rk[i]] for i in rows]], scale=scale)
                        ctx.check(len(rows) == len(full_rk) - len(full_rk) // n0, "labels_with_missing_sample",
                                  f"field {f}: {len(rows)} complete samples returned, expected {len(full_rk) - len(full_rk) // n0}", **disc)
                    ctx.check(e <= 1e-8, "missing_sample_changes_others", f"field {f}: rel err {e:.3g}", **disc)

    # (e) cross-set models: one field transformed alone gives the rows of the joint transform, labelled by its own data
    #     (the previous call transformed other samples, so nothing can be borrowed from it)
    if not multi and nf == 2:
        ctx.event("single_field")
        for f in (1, 0):  # (Y first: the samples X went through last are then other ones)
            t = call(ctx, "transform_raises", ad.transform_one, f, new[f], norm, disc=dict(disc, part=f"field_{'XY'[f]}_alone"))
            if isinstance(t, Failed):
                continue
            if not (isinstance(t, xr.DataArray) and set(sdims) <= set(t.dims)):
                ctx.violation("output_dims", f"field {f} alone: dims {getattr(t, 'dims', None)}", **disc)
                continue
            r1, M1 = rows_of(t, sdims)
            compare("single_field", rows_T[f][0], rows_T[f][1], r1, M1)
            if not positional:
                ctx.check(len(r1) == len(rows_T[f][0]), "single_field_labels", f"field {f} alone: {len(r1)} samples vs {len(rows_T[f][0])}", **disc)
