"""C12 — dask-backed and deferred fits equal the in-memory fit and stay lazy until asked."""

from __future__ import annotations

import numpy as np
import xarray as xr
from hypothesis import strategies as st

from vlib.tab import table_from_obj
from vlib.util import Failed, call, relerr

ID = "C12"
RULE = (
    "Hypothesis draws real data (time x lat x lon, or time x x), a chunk layout in {one chunk, along samples, along features, both, one "
    "element per chunk}, a scheduler (synchronous, or threads with 1..8 workers), compute in {True, False}, a dask-capable class (EOF, "
    "ExtendedEOF, SparsePCA, POP, OPA, EOFRotator, CPCCA, MCA, CPCCARotator) and, at low weight, a complex/Hilbert class to confirm the "
    "documented refusal. A counting scheduler installed through dask.config counts every graph execution. Non-trivial: >= 2 chunks along some dimension."
)
ASSUMPTIONS = [
    "thread interleavings are not controlled: dask's dataflow semantics make results schedule-independent; worker counts are sampled",
    "the dask path uses svd_compressed (randomised): singular values rtol 1e-6, components/scores 1e-4, compared behind a spectral gap "
    "(s_{k+1}/s_k <= 0.3); the exact solver on a 2-D chunked array is refused by dask (NotImplementedError) and counted as refusal",
    "complex / Hilbert models refuse dask input with NotImplementedError (documented)",
]
TIERS = {"quick": (8, 30), "thorough": (16, 250)}
CASE_TIMEOUT = 240
EAGER_ITER = 100  # (every eager iteration on dask data is one graph execution; slower rotations are refused by xeofs: 'did not converge')
DEFERRED_ITER = 15  # a deferred rotation runs exactly this many iterations; its reference runs the same number in memory

CLASSES = ["EOF", "EOF", "ExtendedEOF", "SparsePCA", "POP", "OPA", "EOFRotator", "CPCCA", "MCA", "CPCCARotator", "ComplexEOF", "HilbertEOF"]
LAYOUTS = ["one", "samples", "features", "both", "elements"]


@st.composite
def strategy(draw, cls=None):
    cls = cls or draw(st.sampled_from(CLASSES))  # (the runner stratifies: every shard runs its slice of CLASSES, one class at a time)
    layout = draw(st.sampled_from(LAYOUTS))
    small = layout in ("elements", "both")
    # (two features rotated as two modes: the varimax update matrix is a multiple of an orthogonal matrix or exactly zero,
    #  the iteration is a 2-cycle or leaves the start only through rounding noise; rotators get >= 3 features)
    return {"cls": cls, "n": draw(st.integers(10, 12 if small else 20)), "nlat": draw(st.integers(3 if cls.endswith("Rotator") else 2, 3)), "nlon": draw(st.integers(1, 2)), "grid": draw(st.booleans()),
            "layout": layout, "sched": draw(st.sampled_from(["sync", "threads"])), "workers": draw(st.integers(1, 8)),
            "compute": draw(st.booleans()), "seed": draw(st.integers(0, 2**31 - 1)), "k": draw(st.integers(1, 3)),
            "standardize": draw(st.integers(0, 3)) == 0, "alpha": draw(st.sampled_from([1.0, 0.5, 0.0])), "solver": draw(st.sampled_from(["auto", "auto", "full"]))}


def make(desc, shift=0):
    rng = np.random.default_rng(desc["seed"] + shift)
    n, p = desc["n"], desc["nlat"] * desc["nlon"]
    s = 0.35 ** np.arange(p) * 5  # clear gaps so that the randomised solver is accurate
    U, _ = np.linalg.qr(rng.standard_normal((n, p)))
    V, _ = np.linalg.qr(rng.standard_normal((p, p)))
    M = (U * s) @ V.T + rng.standard_normal(p)
    if desc["grid"]:
        return xr.DataArray(M.reshape(n, desc["nlat"], desc["nlon"]), dims=("time", "lat", "lon"),
                            coords={"time": np.arange(n), "lat": np.linspace(-60, 60, desc["nlat"]), "lon": np.arange(desc["nlon"]) * 10.0})
    return xr.DataArray(M, dims=("time", "x"), coords={"time": np.arange(n), "x": np.arange(p)})


def chunk(da, layout):
    fd = [d for d in da.dims if d != "time"]
    if layout == "one":
        return da.chunk({d: -1 for d in da.dims})
    if layout == "samples":
        return da.chunk({"time": max(2, da.sizes["time"] // 3), **{d: -1 for d in fd}})
    if layout == "features":
        return da.chunk({"time": -1, **{d: 1 for d in fd}})
    if layout == "both":
        return da.chunk({"time": max(2, da.sizes["time"] // 2), **{d: max(1, da.sizes[d] // 2) for d in fd}})
    return da.chunk({d: 1 for d in da.dims})


class Counter:
    def __init__(self, desc):
        import dask
        import dask.threaded

        self.calls = 0
        self.desc = desc
        self._sync = dask.get
        self._thr = dask.threaded.get

    def __call__(self, dsk, keys, **kw):
        self.calls += 1
        if self.desc["sched"] == "threads":
            return self._thr(dsk, keys, num_workers=self.desc["workers"], **kw)
        return self._sync(dsk, keys, **kw)


def build(desc, compute, X, Y):
    import xeofs as xe

    cls = desc["cls"]
    p = desc["nlat"] * desc["nlon"]
    k = max(1, min(desc["k"], p))
    com = dict(standardize=desc["standardize"], compute=compute, check_nans=compute, random_state=3, solver=desc["solver"])
    if cls in ("EOF", "EOFRotator"):
        m = xe.single.EOF(n_modes=min(p, max(k, 2 if cls == "EOFRotator" else 1)), **com)
    elif cls == "ComplexEOF":
        m = xe.single.ComplexEOF(n_modes=k, **com)
    elif cls == "HilbertEOF":
        m = xe.single.HilbertEOF(n_modes=k, **com)
    elif cls == "ExtendedEOF":
        m = xe.single.ExtendedEOF(n_modes=k, tau=1, embedding=2, **com)
    elif cls == "SparsePCA":
        m = xe.single.SparsePCA(n_modes=k, alpha=1e-3, beta=1e-3, max_iter=3, **com)
    elif cls == "POP":
        m = xe.single.POP(n_modes=2, n_pca_modes=min(2, p), **com)
    elif cls == "OPA":
        m = xe.single.OPA(n_modes=min(2, p), tau_max=2, n_pca_modes=min(3, p), **com)
    else:
        kw = dict(n_modes=min(min(3, p), max(k, 2 if cls == "CPCCARotator" else 1)), use_pca=True, n_pca_modes=min(3, p), **com)
        if cls != "MCA":
            kw["alpha"] = desc["alpha"]
        m = (xe.cross.MCA if cls == "MCA" else xe.cross.CPCCA)(**kw)
    return m


def fit_all(desc, compute, X, Y):
    import xeofs as xe

    m = build(desc, compute, X, Y)
    cross = desc["cls"] in ("CPCCA", "MCA", "CPCCARotator")
    if cross:
        m.fit(X, Y, "time")
    else:
        m.fit(X, "time")
    if desc["cls"] == "EOFRotator":
        r = xe.single.EOFRotator(n_modes=m.get_params()["n_modes"], power=1, compute=compute, max_iter=DEFERRED_ITER if not compute else EAGER_ITER)
        r.fit(m)
        return m, r
    if desc["cls"] == "CPCCARotator":
        r = xe.cross.CPCCARotator(n_modes=m.get_params()["n_modes"], power=1, compute=compute, max_iter=DEFERRED_ITER if not compute else EAGER_ITER)
        r.fit(m)
        return m, r
    return m, m


def is_dask(a):
    import dask.array as da

    return isinstance(a.data, da.Array)


def results(m, cross):
    if cross:
        return {"sv": np.asarray(m.data["squared_covariance"].values, dtype=float) ** 0.5,
                "comps": [table_from_obj(c, ["mode"]) for c in m.components()], "scores": [table_from_obj(s, ["time"]) for s in m.scores()]}
    key = "norms"
    return {"sv": np.abs(np.asarray(m.data[key].values)), "comps": [table_from_obj(m.components(), ["mode"])], "scores": [table_from_obj(m.scores(), ["time"])]}


_WARMED = {"done": False}


def warm_up():
    """The first dask-backed fits of every worker process are eager ones: state that leaks from an eager fit into later
    deferred fits of fresh models (module-level defaults, caches) then shows up in every deferred case of the process."""
    if _WARMED["done"]:
        return
    _WARMED["done"] = True
    from vlib.util import quiet
    d = {"cls": "EOF", "n": 12, "nlat": 2, "nlon": 2, "grid": True, "layout": "samples", "k": 1, "standardize": False, "alpha": 1.0, "solver": "auto", "seed": 5}
    X = chunk(make(d), "samples")
    quiet(fit_all, d, True, X, None)
    d2 = dict(d, cls="MCA")
    quiet(fit_all, d2, True, X, chunk(make(d2, 99), "samples"))


def run_case(desc, ctx):
    import dask

    warm_up()
    cls = desc["cls"]
    ctx.event(f"cls={cls}")
    ctx.event(f"layout={desc['layout']}")
    ctx.event(f"sched={desc['sched']}")
    ctx.event(f"compute={desc['compute']}")
    Xn = make(desc)
    Yn = make(desc, 99).isel(time=slice(None)) if cls in ("CPCCA", "MCA", "CPCCARotator") else None
    layout = desc["layout"]
    if Yn is not None and layout == "elements":
        layout = "both"  # (one element per chunk makes the eager cross-set fits take minutes; 2-D chunking is covered by 'both')
    Xd = chunk(Xn, layout)
    Yd = chunk(Yn, layout) if Yn is not None else None
    cross = Yn is not None
    multi_chunk = any(len(c) > 1 for c in Xd.chunks)
    ctx.nontrivial(multi_chunk)
    compute = desc["compute"]
    disc = dict(cls=cls, compute=compute, layout=desc["layout"])
    counter = Counter(desc)

    if cls in ("ComplexEOF", "HilbertEOF"):
        # documented: complex data together with dask is not implemented
        Xc = Xd + 1j * Xd if cls == "ComplexEOF" else Xd
        with dask.config.set(scheduler=counter):
            try:
                fit_all(desc, True, Xc, None)
            except NotImplementedError:
                ctx.refused("NotImplementedError: complex/Hilbert with dask (documented)")
            except Exception as e:  # noqa: BLE001
                ctx.violation("complex_dask_other_error", f"{type(e).__name__}: {str(e)[:100]}", **disc)
                return
        ctx.event("complex_dask_accepted")
        return

    # ---- reference: in-memory fit.  A deferred rotation runs exactly max_iter iterations without a convergence test
    # (documented), and the varimax iteration may approach its limit slowly and in an alternating fashion when there are
    # few features per mode: the reference of a deferred rotator is therefore the in-memory fit with the same parameters
    # (the same fixed number of iterations), not the eagerly converged one.
    fixed_iter = (cls.endswith("Rotator") or cls == "SparsePCA") and not compute  # (the sparse solver also runs all of max_iter when deferred)
    ref = call(ctx, "numpy_fit_raises", fit_all, desc, not fixed_iter, Xn, Yn, disc=disc, refuse=(RuntimeError,), refuse_if=lambda e: "did not converge" in str(e))
    if isinstance(ref, Failed):
        return
    if fixed_iter:
        ctx.event("reference_with_fixed_iterations")
        c = call(ctx, "numpy_compute_raises", ref[1].compute, disc=disc)  # (modes are sorted by compute())
        if isinstance(c, Failed):
            return
    R = results(ref[1], cross)
    slow_rotation = False

    # ---- dask fit under the counting scheduler
    with dask.config.set(scheduler=counter):
        got = call(ctx, "dask_fit_raises", fit_all, desc, compute, Xd, Yd, disc=disc, refuse=(NotImplementedError, RuntimeError, ValueError),
                   refuse_if=lambda e: isinstance(e, NotImplementedError) or "did not converge" in str(e) or "Data not chunked correctly" in str(e))
        if isinstance(got, Failed):
            return
        base, model = got
        calls_during_fit = counter.calls
        if not compute:
            ctx.check(calls_during_fit == 0, "deferred_fit_computes", f"{calls_during_fit} scheduler invocation(s) during fit with compute=False, check_nans=False", **disc)
            lazy_keys = [k for k in model.data if k not in ("idx_modes_sorted",) and hasattr(model.data[k], "data")]
            not_lazy = [k for k in lazy_keys if not is_dask(model.data[k])]
            ctx.check(not not_lazy, "deferred_results_not_dask", f"results already in memory after a deferred fit: {not_lazy}", **disc)
            c = call(ctx, "compute_raises", model.compute, disc=disc)
            if isinstance(c, Failed):
                return
            if model is not base:
                pass
        # input data is never replaced by an in-memory copy
        for key in [k for k in model.data if str(k).startswith("input_data") and cls != "OPA"]:  # (OPA stores derived PC scores under that name)
            ctx.check(is_dask(model.data[key]), "input_data_loaded", f"model.data['{key}'] is no longer dask-backed", **disc)
        G = call(ctx, "results_raise", results, model, cross, disc=disc)
    if isinstance(G, Failed):
        return

    # ---- differential against the in-memory fit
    if slow_rotation:
        return
    sref, sgot = R["sv"], G["sv"]
    if not ctx.check(sref.shape == sgot.shape, "n_modes", f"{sgot.shape} vs {sref.shape}", **disc):
        return
    e = relerr(sgot, sref, scale=sref.max())
    # a deferred rotation runs a fixed number of iterations, the eager one stops at a relative change of 1e-8 of its
    # objective: both approximate the converged rotation to ~1e-4
    rot_tol = False
    ctx.check(e <= (2e-3 if rot_tol else 1e-5 if (cross or cls.endswith("Rotator")) else 1e-6), "singular_values", f"dask fit differs from the in-memory fit (rel err {e:.3g}): {sgot} vs {sref}", **disc)
    if cls in ("POP",):
        return
    sep = all(abs(sref[i] - sref[j]) > 1e-3 * sref.max() for i in range(len(sref)) for j in range(len(sref)) if i != j)
    if not sep:
        ctx.event("degenerate_modes_skipped")
        return
    for what in ("comps", "scores"):
        for f, (ta, tb) in enumerate(zip(R[what], G[what])):
            try:
                Bm = tb.at(ta.rows, ta.cols)
            except KeyError as err:
                ctx.violation("labels", f"{what} field {f}: {err}", **disc)
                continue
            axis = 1 if what == "comps" else 0
            ip = np.nansum(ta.M * Bm, axis=axis, keepdims=True)
            tie = any((lambda v: len(v) > 1 and v[0] - v[1] < 1e-3 * v[0])(np.sort(np.abs(r[~np.isnan(r)]))[::-1]) for r in R["comps"][f].M)
            Bm = Bm * np.where(ip < 0, -1.0, 1.0) if tie or cls in ("SparsePCA", "OPA", "ExtendedEOF") or cross or cls.endswith("Rotator") else Bm
            e = relerr(np.nan_to_num(Bm), np.nan_to_num(ta.M))
            ctx.check(e <= (5e-3 if rot_tol else 1e-4), what, f"field {f}: dask fit differs from the in-memory fit (rel err {e:.3g})", **dict(disc, field=f))
