#!/bin/bash
# For every "fixed:" entry of known_findings.json that names a commit and replay file(s): revert that commit in a scratch
# worktree of /repo HEAD and expect each named replay to report a VIOLATION again (a fix whose revert goes unnoticed would
# mean the regression tier does not guard it).  Reverts that conflict with later commits are reported as CONFLICT.
cd "$(dirname "${BASH_SOURCE[0]}")/.." || exit 2
wt=/tmp/revert_wt
git -C /repo worktree remove --force $wt 2>/dev/null
git -C /repo worktree add -q --detach $wt HEAD || exit 2
/venv/bin/python - <<'PY' > /tmp/revert_plan.txt
import json,re
k=json.load(open('/verif/known_findings.json'))
for f in k['fixed']:
    m=re.match(r"fixed: property=(C\d+) ([0-9a-f]{7})(?:\+([0-9a-f]{7}))? ",f)
    if not m: continue
    reps=re.findall(r"replays/fixed/[A-Za-z0-9_.*-]+\.json",f)
    print(m.group(1), ",".join(x for x in (m.group(2),m.group(3)) if x), " ".join(reps))
PY
rc=0
while read -r prop commits reps; do
  git -C $wt checkout -q -- . ; git -C $wt clean -fdq
  ok=1
  for c in $(echo $commits | tr ',' ' ' | awk '{for(i=NF;i>0;i--) print $i}'); do
    git -C $wt revert -n $c >/dev/null 2>&1 || { ok=0; git -C $wt revert --abort 2>/dev/null; git -C $wt checkout -q -- .; }
  done
  if [ $ok = 0 ]; then echo "CONFLICT $prop $commits"; continue; fi
  for r in $reps; do
    for f in $r; do
      [ -f "$f" ] || { echo "NOFILE   $prop $commits $f"; rc=1; continue; }
      id=$(basename $f | cut -c1-3)
      out=$(XEOFS_SRC=$wt VERIF_OUT=/tmp/revert_out ./vcheck $id --replay $f 2>&1 | head -1)
      if echo "$out" | grep -q "^VIOLATION"; then echo "GUARDED  $prop $commits $f"; else echo "UNNOTICED $prop $commits $f :: $out"; rc=1; fi
    done
  done
done < /tmp/revert_plan.txt
git -C $wt revert --abort 2>/dev/null; git -C /repo worktree remove --force $wt; rm -rf /tmp/revert_out
exit $rc
