#!/usr/bin/env python3
"""Unit test of the known-findings matcher (run: /venv/bin/python tools/test_matcher.py): a listed finding is tolerated,
a different violation of the same property (other sub-check or other discriminators) is not."""
import os, sys
sys.path.insert(0, os.path.join(os.path.dirname(os.path.abspath(__file__)), ".."))
from vlib.runner import Ctx, Violation, match_known

known = [{"property": "C03", "subcheck": "reconstruction_full_modes", "where": {"cls": "HilbertEOF", "center": False}, "what": "demo"}]
assert match_known(Violation("C03", "reconstruction_full_modes", "m", {"cls": "HilbertEOF", "center": False, "field": 0}), known)
assert match_known(Violation("C03", "reconstruction_full_modes", "m", {"cls": "HilbertEOF", "center": True}), known) is None
assert match_known(Violation("C03", "reconstruction_full_modes", "m", {"cls": "EOF", "center": False}), known) is None
assert match_known(Violation("C03", "T_after_I", "m", {"cls": "HilbertEOF", "center": False}), known) is None
assert match_known(Violation("C04", "reconstruction_full_modes", "m", {"cls": "HilbertEOF", "center": False}), known) is None
c = Ctx("C03", known)
c.violation("reconstruction_full_modes", "m", cls="HilbertEOF", center=False)
c.violation("reconstruction_full_modes", "m", cls="EOF", center=False)
assert len(c.known_hits) == 1 and len(c.violations) == 1
print("matcher ok")
