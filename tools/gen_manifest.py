#!/usr/bin/env python3
"""Regenerate MANIFEST.json from the table below (claimed checks) + properties.jsonl (unclaimed -> not_applicable)."""
import json, os
ROOT = os.path.dirname(os.path.dirname(os.path.abspath(__file__)))
props = [json.loads(l) for l in open(os.path.join(ROOT, "properties.jsonl"))]

# id -> (technique, level text, level note, design ref)
CLAIMED = {}
LEVELS = {}
def claim(i, technique, text, note, ref=None, level="exploration"):
    CLAIMED[i] = (technique, text, note, ref or f"DESIGN.md section 6 ({i})")
    LEVELS[i] = level

exec(open(os.path.join(ROOT, "tools", "claims.py")).read())

NOT_APPLICABLE_REASONS = {}
if os.path.exists(os.path.join(ROOT, "tools", "na.json")):
    NOT_APPLICABLE_REASONS = json.load(open(os.path.join(ROOT, "tools", "na.json")))

checks = []
for p in props:
    i = p["id"]
    if i not in CLAIMED:
        continue
    tech, text, note, ref = CLAIMED[i]
    checks.append({
        "property_id": i,
        "quick_cmd": f"./vcheck {i} --tier quick",
        "thorough_cmd": f"./vcheck {i} --tier thorough",
        "evidence_file": f"/verif/evidence/{i}.json",
        "replay_cmd_template": f"./vcheck {i} --replay {{path}}",
        "engine": "hypothesis-runner",
        "level_claimed": {"category": LEVELS.get(i, "exploration"), "text": text, "design_ref": ref},
        "level_note": note,
        "technique": tech,
    })
m = {
    "version": 1,
    "setup_cmd": "/venv/bin/pip install --no-index --find-links /opt/veriftools/wheels hypothesis >/dev/null 2>&1 || true; /venv/bin/python -c 'import hypothesis, numpy, xarray, dask; print(hypothesis.__version__)'",
    "hooks": {
        "guard": "XEOFS_VERIF",
        "enable": "no source hooks exist: checks import /repo's working tree directly (sys.path[0]=$XEOFS_SRC, default /repo); all monitors are external (counting dask scheduler, recording subclasses, deep copies)",
        "baseline_off_cmd": "cd /repo && /venv/bin/python -m pytest -q -p no:cacheprovider --timeout=900",
        "source_commits": [],
        "add_only": True,
    },
    "engines": [{"name": "hypothesis-runner", "path": "/verif/vlib/runner.py", "serves_properties": sorted(CLAIMED),
                 "kind_free_text": "Hypothesis 6.168 @given/@seed search over JSON case descriptors, sharded over processes, explicit numpy oracles, known-findings matcher, shrinking to replay files"}],
    "checks": checks,
    "notes": "All checks: exit 0 held / exit 1 + 'VIOLATION property=<id> replay=<path>' / exit 2 harness error. VERIF_SEED and VERIF_TIER honoured. Known genuine defects are listed in /verif/known_findings.json (printed as KNOWN-FINDING lines, never stop a run).",
    "not_applicable": [{"property_id": p["id"], "reason": NOT_APPLICABLE_REASONS.get(p["id"], "check under construction in this session; will be claimed once its machinery is committed")}
                       for p in props if p["id"] not in CLAIMED],
}
json.dump(m, open(os.path.join(ROOT, "MANIFEST.json"), "w"), indent=1)
import jsonschema  # noqa
print("claimed:", sorted(CLAIMED), "unclaimed:", [p["id"] for p in props if p["id"] not in CLAIMED])
