#!/usr/bin/env python3
"""Pick the smallest collected descriptor matching a predicate and save it as a fixed-defect replay.
usage: harvest.py ID name 'python expr over v (violation dict) and d (desc)'"""
import json, sys
pid, name, expr = sys.argv[1:4]
data = json.load(open(f"/tmp/collect_{pid}.json"))
c = [x for x in data if eval(expr, {}, {"v": x["violation"], "d": x["desc"], "disc": x["violation"]["disc"], "msg": x["violation"]["msg"], "sub": x["violation"]["subcheck"]})]
c.sort(key=lambda x: len(json.dumps(x["desc"])))
if not c:
    print("no match for", name); sys.exit(1)
out = f"/verif/replays/fixed/{pid}-{name}.json"
json.dump({"property": pid, "desc": c[0]["desc"], "violation": c[0]["violation"], "note": "fails on the original snapshot 68db2e9, passes after the fix"}, open(out, "w"), indent=1)
print(out, c[0]["violation"]["subcheck"], c[0]["violation"]["msg"][:90])
