#!/bin/bash
# Run a check's quick tier at several seeds in fresh processes (evidence redirected); any non-zero exit is reported.
cd "$(dirname "${BASH_SOURCE[0]}")/.." || exit 2
id="$1"; shift; seeds="${@:-1 2 3 4 5}"
out=$(mktemp -d /tmp/quiet.XXXXXX); rc=0
for s in $seeds; do
  VERIF_SEED=$s VERIF_OUT=$out ./vcheck "$id" --tier quick > "$out/log.$s" 2>&1; r=$?
  echo "seed $s exit $r :: $(grep -E '^(OK|VIOLATION|HARNESS)' "$out/log.$s" | head -2 | cut -c1-200)"
  [ $r -ne 0 ] && { rc=1; grep -A2 VIOLATION "$out/log.$s" | head -8; tail -5 "$out/log.$s"; cp -r "$out/replays" /tmp/quiet_replays_$id 2>/dev/null; }
done
rm -rf "$out"; exit $rc
