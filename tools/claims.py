# claim(id, technique, level text, level note)
claim("C01", "property-based differential testing against an independent numpy eigen-solver (Hypothesis)",
      "Generated search over model class x shape x spectrum family x scale x preprocessing flags x solver; every case is compared with eigvalsh of the reference covariance built from the raw input, plus orthonormality, score Gram matrix and the Eckart-Young optimum by label. Exploration only: absence is not shown.",
      "Trusted: numpy/LAPACK eigvalsh+svd, numpy FFT (Hilbert reference), xarray label access, Hypothesis; sizes 2..14 samples x 1..12 features plus 520-row matrices crossing the solver switch.")
