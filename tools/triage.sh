#!/bin/bash
# usage: tools/triage.sh ID [extra vcheck args]  -> table of violation signatures from a --collect run
cd "$(dirname "${BASH_SOURCE[0]}")/.." || exit 2
id="$1"; shift
VERIF_COLLECT_JSON=/tmp/collect_$id.json ./vcheck "$id" --collect "$@" > /tmp/collect_$id.txt 2>&1
grep -E "^[A-Za-z_.]+(Error|Exception|Timeout)[:(]|^  File \"/verif/checks|^  File \"/verif/vlib/(gen|layouts|oracle|tab|cases|models)" -A1 /tmp/collect_$id.txt | grep -v "^--" | sort | uniq -c | sort -rn | head -12
grep -E "^ +[0-9]+  " /tmp/collect_$id.txt | awk '{c=$1; $1=""; print c, substr($0,1,330)}' | sort -k2,2 -k1,1nr | head -${TRIAGE_N:-60}
grep "^# refusals" /tmp/collect_$id.txt | cut -c1-400; grep "^# collect" /tmp/collect_$id.txt
