#!/bin/bash
# usage: tools/sweep.sh "<seeds>" [ID ...]  -> every quick check at each seed; seed 1 writes the committed evidence, other seeds a scratch dir
cd "$(dirname "${BASH_SOURCE[0]}")/.." || exit 2
seeds="$1"; shift
ids=("$@"); [ ${#ids[@]} -eq 0 ] && ids=(C01 C02 C03 C04 C05 C06 C07 C08 C09 C10 C11 C12 C13 C14 C15 C16 C17 C18 C19 C20)
for id in "${ids[@]}"; do
  for s in $seeds; do
    if [ "$s" = 1 ]; then out=""; else out="$(mktemp -d /tmp/sweep.XXXXXX)"; fi
    t0=$(date +%s)
    VERIF_OUT="$out" VERIF_SEED=$s ./vcheck "$id" --tier quick > /tmp/sweep_${id}_${s}.log 2>&1
    rc=$?
    echo "$id seed=$s exit=$rc $(( $(date +%s)-t0 ))s :: $(grep -E '^(OK|VIOLATION|KNOWN-FINDING|HARNESS)' /tmp/sweep_${id}_${s}.log | head -3 | tr '\n' ' ' | cut -c1-260)"
    [ -n "$out" ] && [ $rc -eq 0 ] && rm -rf "$out"
  done
done
